"""C34 -- secure statistics agree with Python's statistics module.

Lean: MpycV.Props.C34 (model MpycV.Model.Stats).  Real code: mpyc.statistics run in harness/simnet.py (m in {1,3},
PRSS on/off) on secure integers and secure fixed-point numbers.
  * correspondence (exact): secure-integer results of mean, variance/pvariance (with and without given mean),
    stdev/pstdev, _isqrt, median/median_low/median_high, quantiles (both methods, n = 1..12), mode, covariance
    vs the Lean driver; `_quickselect` itself (secint and secfxp): the secret random bits are replaced by a seeded
    controlled stream (harness/randstat_oracle.py), pivots and tie-breaking bits of every round of every recursive
    call are recovered and fed to the model, the selected values and the number of rounds must agree; the order
    statistics requested by quantiles (`ks`) must equal the model's `quantileKs`.
  * oracle (independent): Python's `statistics` / exact Fractions on the same data; integers with the rounding the
    mpyc docstrings state (nearest integer, ties up; median of two middle values floors), fixed-point results
    within an error bound derived from the number of fixed-point roundings of each formula; error cases must raise
    StatisticsError exactly when Python's statistics does.
"""
import fractions
import itertools
import math
import multiprocessing
import os
import statistics as pystat
import sys

sys.path.insert(0, os.path.dirname(os.path.dirname(os.path.abspath(__file__))))
import repo_path  # noqa: F401,E402
import common  # noqa: E402
import simnet  # noqa: E402
from simnet import SimNet  # noqa: E402
import randstat_oracle as ro  # noqa: E402
from randstat_oracle import SRC, TAG, bits_str, ints_str  # noqa: E402
from mpyc import statistics as ms  # noqa: E402

LEVEL = 'other'
LEAN_MODULES = ['MpycV.Props.C34']
LEAN_NAMESPACES = ['MpycV.C34']
REQUIRED_THEOREMS = ['mean_int', 'mean_int_nearest', 'variance_int', 'variance_int_given_mean', 'covariance_int',
                     'isqrt_spec', 'isqrt_spec_range', 'std_int_spec', 'fsqrt_bracket', 'median_int',
                     'median_int_all_pivots', 'cutIndex_inclusive', 'cutIndex_exclusive', 'quantile_keys_cover',
                     'quantileKs_sorted', 'cut_point_int_inclusive', 'cut_point_int_exclusive', 'quantiles_int',
                     'mode_spec', 'mode_spec_unique', 'quickselect_spec', 'isort_sorted_perm',
                     'correlation_identity', 'linear_regression_identity', 'mean_int_empty', 'variance_int_error',
                     'quantiles_errors', 'mode_empty', 'median_int_empty',
                     'mean_scale_constant_vanishes', 'mean_scale_step_exact', 'meanSteps_sum']
RULE = ('data sets: ALL lists of length 1..4 over {0,1,2,3} (duplicates included) plus seeded random lists of length '
        '<= 9 over small ranges with negatives and duplicates; secint and secfxp (quarter-integer values); every '
        'function; quantiles with n in 1..12 and both methods; m in {1,3}, PRSS on/off; a case is distinct by '
        '(function, arguments, type, data); non-trivial = at least 2 data points')
EXPLANATION = ('PROVED (all inputs, all pivots/tie bits): mean_int/variance_int/covariance_int = documented rounding of the '
               'exact value; isqrt_spec (= floor sqrt) and stdev = isqrt(variance); fsqrt_bracket; median index '
               'arithmetic and median_int; quantile index/interpolation arithmetic = CPython formulas rounded half up, '
               'requested keys cover the reads, are in range and ascending; quickselect_spec (k-th smallest for every '
               'pivot choice, literal compaction loops included); mode_spec (first data point of maximal frequency); '
               'correlation/linear_regression formula identities.  VALIDATED ONLY (harness): numeric closeness of all '
               'secure fixed-point results (mean, variance, stdev, median, quantiles, covariance, correlation, '
               'linear_regression) to Python within bounds derived from the fixed-point roundings; that the secure '
               'comparison/selection/unit-vector/sorting protocols compute their exact values (C01/C29/C30)')
ASSUMPTIONS = ['secure comparison, if_else, in_prod, sum, schur_prod, unit_vector, min_max, argmax, sorted compute their exact '
               'values (C01, C29, C30); the correspondence runs them for real',
               'fixed-point multiplication rounds to floor or floor+1 of the exact scaled product (C02)']
TRUSTED = ['harness/randstat_oracle.py (bit source, tagging, recombination of logged shares)',
           'Python statistics / fractions as the reference']

F = 16               # fractional bits of the secure fixed-point type used
LI, LF = 24, 32      # bit lengths: secint, secfxp (l = 2f: secure division by secret numbers needs l <= 2f+1)
ULP = 2.0 ** -F
PRIV = None          # read from the runtime (sec_param // 6)


def _types(mpc):
    return mpc.SecInt(LI), mpc.SecFxp(LF, F)


# ---------------------------------------------------------------------------------------------
# worker: run a batch of calls on the real code
# ---------------------------------------------------------------------------------------------
def _share_value(objs):
    """field value of a secure object from the shares of all parties (objs: one per party)"""
    return ro.recombine_secret(None, objs)


def _signed(v, p):
    return v - p if v > p // 2 else v


def _qs_tree(m, tag):
    """rounds below a `_quickselect` call node in depth-first order, as 'p:bits' strings"""
    n, ks = SRC.args[(0, tag)]
    children = SRC.child_tags(0, tag)
    ruvs = [c for c in children if SRC.kind[(0, c)] == 'ruv']
    subs = [c for c in children if SRC.kind[(0, c)] == 'qs']
    ties = SRC.consumed(0, tag)
    rounds = []
    for r, c in enumerate(ruvs):
        vec = []
        rets = [SRC.ret[(i, c)] for i in range(m)]
        for j in range(len(rets[0])):
            v, p = _share_value([rets[i][j] for i in range(m)])
            vec.append(_signed(v, p))
        pos = [j for j, a in enumerate(vec) if a != 0]
        pivot = pos[0] if len(pos) == 1 else 10 ** 6       # not a unit vector: the model will disagree
        rounds.append(f'{pivot}:{bits_str(ties[r * n:(r + 1) * n])}')
    for c in subs:
        rounds += _qs_tree(m, c)
    return rounds


def _qs_values(m, tag, scale):
    rets = [SRC.ret[(i, tag)] for i in range(m)]
    vals = []
    for j in range(len(rets[0])):
        v, p = _share_value([rets[i][j] for i in range(m)])
        vals.append(_signed(v, p))
    return vals


def _exc_name(fn):
    try:
        return None, fn()
    except Exception as exc:  # noqa
        return type(exc).__name__, None


def do_stat_call(st, x, y, call):
    fn = call[0]
    if fn == 'mean':
        return ms.mean(x)
    if fn in ('variance', 'pvariance', 'stdev', 'pstdev'):
        f = getattr(ms, fn)
        return f(x) if call[1] is None else f(x, st(call[1]))
    if fn in ('median', 'median_low', 'median_high', 'mode'):
        return getattr(ms, fn)(x)
    if fn == 'quantiles':
        return ms.quantiles(x, n=call[1], method=call[2])
    if fn in ('covariance', 'correlation'):
        return getattr(ms, fn)(x, y)
    if fn == 'linear_regression':
        r = ms.linear_regression(x, y)
        return [r.slope, r.intercept]
    if fn == '_isqrt':
        return ms._isqrt(st(call[1]))
    if fn == '_fsqrt':
        return ms._fsqrt(st(call[1]))
    raise ValueError(fn)


def run_batch(spec):
    """spec: dict(typ 'int'|'fxp', m, no_prss, seed, items=[(x, y, [calls])]); x, y lists of numbers (fxp: floats
    that are exact multiples of 2^-F).  Returns a list of records."""
    typ, m = spec['typ'], spec['m']
    SRC.reset(seed=spec['seed'])
    net = SimNet(m, seed=spec['seed'], no_prss=spec['no_prss'],
                 max_steps=400_000 + 80_000 * sum(len(it[2]) for it in spec['items']))
    ro.install(net)
    items = spec['items']

    async def prog(mpc):
        secint, secfxp = _types(mpc)
        st = secint if typ == 'int' else secfxp
        pend = []
        for di, (x, y, calls) in enumerate(items):
            sx = [st(a) for a in x]
            sy = [st(a) for a in y] if y is not None else None
            for ci, call in enumerate(calls):
                tok = TAG.set(('S', di, ci))
                exc, r = _exc_name(lambda: do_stat_call(st, sx, sy, call))
                TAG.reset(tok)
                pend.append((di, ci, exc, r))
        out = []
        for di, ci, exc, r in pend:
            if exc is not None:
                out.append((di, ci, exc, None))
            else:
                v = await mpc.output(r) if not isinstance(r, list) or r else []
                out.append((di, ci, None, v))
        return out, mpc.options.sec_param // 6

    try:
        results = net.run(prog)
    except (simnet.PartyError, simnet.Deadlock) as exc:
        ncalls = sum(len(it[2]) for it in items)
        if ncalls == 1:
            x, y, calls = items[0]
            return [{'typ': typ, 'm': m, 'no_prss': spec['no_prss'], 'seed': spec['seed'], 'x': x, 'y': y,
                     'call': calls[0], 'exc': f'CRASH {type(exc).__name__}: {str(exc)[:200]}', 'value': None,
                     'agree': True, 'priv': 0, 'qs': None}]
        recs = []
        for x, y, calls in items:           # isolate the failing call(s)
            for call in calls:
                recs += run_batch(dict(spec, items=[(x, y, [call])]))
        return recs
    res0, priv = results[0]
    agree = all(r[0] == res0 for r in results)
    recs = []
    for di, ci, exc, v in res0:
        x, y, calls = items[di]
        root = ('S', di, ci)
        rec = {'typ': typ, 'm': m, 'no_prss': spec['no_prss'], 'seed': spec['seed'], 'x': x, 'y': y,
               'call': calls[ci], 'exc': exc, 'value': v, 'agree': agree, 'priv': priv, 'qs': None}
        qtag = root + (0,)
        if (0, qtag) in SRC.kind and SRC.kind[(0, qtag)] == 'qs' and exc is None:
            n, ks = SRC.args[(0, qtag)]
            try:
                rec['qs'] = {'ks': ks, 'rounds': _qs_tree(m, qtag), 'values': _qs_values(m, qtag, None)}
            except Exception as e:  # noqa  (logging problem: reported as a mismatch by the caller)
                rec['qs'] = {'ks': ks, 'rounds': None, 'values': None, 'error': repr(e)}
        recs.append(rec)
    return recs


# ---------------------------------------------------------------------------------------------
# independent oracle
# ---------------------------------------------------------------------------------------------
def half_up(q):
    """round a Fraction to the nearest integer, ties up (the rounding `(a + d//2) // d` documents)"""
    return math.floor(q + fractions.Fraction(1, 2))


def fr(x):
    return [fractions.Fraction(a) for a in x]


def py_exc(fn):
    try:
        fn()
        return None
    except Exception as exc:  # noqa
        return type(exc).__name__


def ref_value(call, x, y):
    """exact reference value (Fractions / ints) from the textbook definitions; raises like Python's statistics"""
    fn = call[0]
    X = fr(x)
    n = len(X)
    if fn == 'mean':
        return pystat.mean(X)
    if fn in ('variance', 'pvariance'):
        f = getattr(pystat, fn)
        return f(X) if call[1] is None else f(X, fractions.Fraction(call[1]))
    if fn in ('stdev', 'pstdev'):
        f = pystat.variance if fn == 'stdev' else pystat.pvariance
        return f(X) if call[1] is None else f(X, fractions.Fraction(call[1]))       # the variance; caller takes the root
    if fn in ('median', 'median_low', 'median_high', 'mode'):
        return getattr(pystat, fn)(X)
    if fn == 'quantiles':
        return pystat.quantiles(X, n=call[1], method=call[2])
    Y = fr(y)
    if fn in ('covariance', 'correlation', 'linear_regression'):
        if len(Y) != n or n < 2:
            raise pystat.StatisticsError('bad input')
        xb, yb = sum(X) / n, sum(Y) / n
        sxy = sum((a - xb) * (b - yb) for a, b in zip(X, Y))
        sxx = sum((a - xb) ** 2 for a in X)
        syy = sum((b - yb) ** 2 for b in Y)
        if fn == 'covariance':
            return sxy / (n - 1)
        if fn == 'correlation':
            return float(sxy) / math.sqrt(float(sxx * syy))
        slope = sxy / sxx
        return [slope, yb - slope * xb]
    raise ValueError(fn)


def expected_int(call, x, y):
    """the value a secure-integer function must return, per the rounding the docstrings state"""
    fn = call[0]
    v = ref_value(call, x, y)
    if fn in ('mean', 'variance', 'pvariance', 'covariance'):
        return half_up(v)
    if fn in ('stdev', 'pstdev'):
        return math.isqrt(half_up(v))
    if fn == 'median':
        return math.floor(v)
    if fn in ('median_low', 'median_high', 'mode'):
        return int(v)
    if fn == 'quantiles':
        return [half_up(q) for q in v]
    raise ValueError(fn)


def fxp_bound(call, x, y):
    """error bound (absolute) for a fixed-point result, from the roundings of the formula: a product or a division
    by a public constant c costs |operand|·2^-(F+1) (rounded constant) + 1 ulp (truncation)"""
    fn = call[0]
    X = [float(a) for a in x]
    n = len(X)
    u = ULP
    s = abs(sum(X))
    e_mean = (s / 2 + 3) * u
    if fn == 'mean':
        return e_mean
    if fn in ('variance', 'pvariance', 'stdev', 'pstdev'):
        d = n - (1 if fn in ('variance', 'stdev') else 0)
        m = sum(X) / n if call[1] is None else call[1]
        ip = sum((a - m) ** 2 for a in X)
        em = e_mean if call[1] is None else 0.0
        # in_prod with a perturbed mean: sum (x-m-e)^2 = ip - 2e·sum(x-m) + n e^2
        e_ip = 2 * em * abs(sum(a - m for a in X)) + n * em * em + 2 * u
        b = e_ip / d + (ip / 2 + 3) * u
        if fn in ('variance', 'pvariance'):
            return b
        V = ip / d
        return math.sqrt(V + b + u) - math.sqrt(max(0.0, V - b - u)) + 3 * u
    if fn == 'median':
        return 2 * u
    if fn in ('median_low', 'median_high', 'mode'):
        return 0.0
    if fn == 'quantiles':
        nq, method = call[1], call[2]
        d = sorted(X)
        ld = len(d)
        bounds = []
        for i in range(1, nq):          # the interpolation term (d[j+1]-d[j])·delta is divided by the public n
            if method == 'inclusive':
                j, delta = divmod(i * (ld - 1), nq)
                a_ = (d[j + 1] - d[j]) * delta if delta else 0.0
            else:
                j = min(max(i * (ld + 1) // nq, 1), ld - 1)
                delta = i * (ld + 1) - j * nq
                a_ = (d[j] - d[j - 1]) * delta
            bounds.append((abs(a_) / 2 + 3) * u)
        return bounds
    Y = [float(a) for a in y]
    ex = (abs(sum(X)) / 2 + 2) * u
    ey = (abs(sum(Y)) / 2 + 2) * u
    xb, yb = sum(X) / n, sum(Y) / n
    dx = sum(abs(a - xb) for a in X)
    dy = sum(abs(b - yb) for b in Y)
    sxy = sum((a - xb) * (b - yb) for a, b in zip(X, Y))
    sxx = sum((a - xb) ** 2 for a in X)
    syy = sum((b - yb) ** 2 for b in Y)
    e_sxy = ex * dy + ey * dx + n * ex * ey + 2 * u
    if fn == 'covariance':
        return e_sxy / (n - 1) + (abs(sxy) / 2 + 3) * u
    # divisions by SECRET numbers (Newton reciprocal `_rec`, C02): 1/den has absolute error <= 3 ulp + 2^-13/den
    def e_rec(den):
        return 3 * u + 2.0 ** -13 / den
    if fn == 'correlation':
        e_sxx = 2 * ex * dx + n * ex * ex + 2 * u
        e_syy = 2 * ey * dy + n * ey * ey + 2 * u
        sa, sb = math.sqrt(sxx), math.sqrt(syy)
        e_sa = math.sqrt(sxx + e_sxx + u) - math.sqrt(max(0.0, sxx - e_sxx - u)) + 2 * u
        e_sb = math.sqrt(syy + e_syy + u) - math.sqrt(max(0.0, syy - e_syy - u)) + 2 * u
        den = sa * sb
        e_den = e_sa * sb + e_sb * sa + e_sa * e_sb + (den / 2 + 2) * u
        r = abs(sxy) / den
        if den - e_den <= 0:
            return float('inf')
        return (e_sxy + r * e_den) / (den - e_den) + (abs(sxy) + e_sxy) * e_rec(den - e_den) + 3 * u
    if fn == 'linear_regression':
        e_sxx = 2 * ex * dx + n * ex * ex + 2 * u
        if sxx - e_sxx <= 0:
            return [float('inf'), float('inf')]
        sl = abs(sxy) / sxx
        e_sl = (e_sxy + sl * e_sxx) / (sxx - e_sxx) + (abs(sxy) + e_sxy) * e_rec(sxx - e_sxx) + 3 * u
        e_ic = ey + e_sl * (abs(xb) + ex) + sl * ex + (abs(sl * xb) / 2 + 3) * u
        return [e_sl, e_ic]
    raise ValueError(fn)


# ---------------------------------------------------------------------------------------------
# data sets and calls
# ---------------------------------------------------------------------------------------------
QN = list(range(1, 13))


def calls_for(x, y, typ, rng, full, lite=False):
    """calls for one data set.  full: every n and method of quantiles; lite: the cheap functions (no secure
    comparisons) plus two of the comparison-based ones (rotating), used for the exhaustive sets in the quick tier"""
    n = len(x)
    cheap = [('mean',), ('pvariance', None)]
    costly = [('median',), ('median_low',), ('median_high',), ('mode',), ('pstdev', None)]
    if n >= 2:
        cheap.append(('variance', None))
        costly.append(('stdev', None))
        mu = half_up(fractions.Fraction(sum(fr(x)), n)) if typ == 'int' else round(sum(x) / n * 4) / 4
        cheap += [('variance', mu), ('pvariance', mu)]
        qs = [(q, meth) for q in QN for meth in ('exclusive', 'inclusive')]
        costly += [('quantiles',) + q for q in (qs if full else rng.sample(qs, 3))]
        if y is not None:
            cheap.append(('covariance',))
            if typ == 'fxp' and len(set(x)) > 1 and len(set(y)) > 1:
                costly += [('correlation',), ('linear_regression',)]
    if typ == 'fxp' and any(a != int(a) for a in x):
        costly = [c for c in costly if c[0] != 'mode']        # mode needs integral values (ValueError otherwise)
    if lite and not full:
        costly = rng.sample(costly, min(2, len(costly)))
    return cheap + costly


def small_exhaustive(maxlen):
    for n in range(1, maxlen + 1):
        for x in itertools.product(range(4), repeat=n):
            yield list(x)


def random_data(rng, typ, nmax=9):
    n = rng.choice([1, 2, 3, 4, 5, 6, 7, 8, 9][:nmax])
    lo, hi = rng.choice([(0, 3), (-3, 3), (0, 9), (-20, 20), (5, 7), (0, 1)])
    if typ == 'int':
        x = [rng.randint(lo, hi) for _ in range(n)]
        y = [rng.randint(lo, hi) for _ in range(n)]
    else:
        q = rng.choice([1, 1, 2, 4])
        x = [rng.randint(lo * q, hi * q) / q for _ in range(n)]
        y = [rng.randint(lo * q, hi * q) / q for _ in range(n)]
    return x, y


def make_specs(ctx):
    rng = ctx.subrng('data')
    specs = []
    # exhaustive small data sets, m = 1
    for typ, maxlen in (('int', 4), ('fxp', 3)):
        items = []
        for k, x in enumerate(small_exhaustive(maxlen)):
            xs = x if typ == 'int' else [float(a) for a in x]
            y = [xs[(i * 7 + 3) % len(xs)] for i in range(len(xs))]
            y[0] = xs[-1] + 1
            items.append((xs, y, calls_for(xs, y, typ, rng, full=(k % ctx.scale(113, 3) == 0), lite=not ctx.thorough)))
        for i in range(0, len(items), 12):
            specs.append({'typ': typ, 'm': 1, 'no_prss': False, 'seed': rng.randrange(1 << 30), 'items': items[i:i + 12]})
    # random data sets, m = 1 and m = 3
    for typ in ('int', 'fxp'):
        for m, cnt in ((1, ctx.scale(16, 120)), (3, ctx.scale(6, 40))):
            items = []
            for k in range(cnt):
                x, y = random_data(rng, typ)
                items.append((x, y, calls_for(x, y, typ, rng, full=(k % 8 == 0 and m == 1 and ctx.thorough),
                                              lite=(m == 3 and not ctx.thorough))))
            step = 4 if m == 1 else 1
            for i in range(0, len(items), step):
                specs.append({'typ': typ, 'm': m, 'no_prss': (i // step) % 2 == 1, 'seed': rng.randrange(1 << 30),
                              'items': items[i:i + step]})
    # mode on WIDE-range data (max - min >= 2^(sec_param//6)): the histogram is built from the low bits of a - min; values
    # a and a + 2^j (j = top bit of the range) with merged counts above the true mode's count expose bin collisions
    def mode_wide():
        R = rng.randrange(33, 200)
        T = 1 << (R.bit_length() - 1)
        lo = rng.randrange(-60, 20)
        a = lo + rng.randrange(0, R - T + 1)
        c = rng.randrange(1, 4)
        b = lo + rng.choice([v for v in range(0, R + 1) if v not in (a - lo, a - lo + T)])
        x = [lo, lo + R] + [a] * c + [a + T] * c + [b] * rng.randrange(c + 1, 2 * c + 1)
        x += [lo + rng.randrange(0, R + 1) for _ in range(rng.randrange(0, 3))]
        rng.shuffle(x)
        return x
    wide = [[0, 40, 7, 3, 35, 7, 3, 7, 35, 3, 7], [-50, 50, -30, -30, -30, -30, -45, -45, -45, 19, 19, 19]] + \
        [mode_wide() for _ in range(ctx.scale(6, 60))]
    for i, x in enumerate(wide):
        typ = 'int' if i % 3 else 'fxp'
        xs = x if typ == 'int' else [float(a) for a in x]
        specs.append({'typ': typ, 'm': 3 if i % 4 == 3 else 1, 'no_prss': i % 8 == 7, 'seed': rng.randrange(1 << 30),
                      'items': [(xs, None, [('mode',)])]})
    # square roots at the boundaries of the type
    roots = sorted({0, 1, 2, 3, 4, 2 ** (LI - 1) - 1, 2 ** (LI - 2), 2 ** (LI - 2) - 1} |
                   {k * k + d for k in (1, 2, 3, 7, 100, 181, 1000, 2047, 2048, 2896) for d in (-1, 0, 1)
                    if 0 <= k * k + d < 2 ** (LI - 1)} | {rng.randrange(2 ** (LI - 1)) for _ in range(ctx.scale(6, 60))})
    specs.append({'typ': 'int', 'm': 1, 'no_prss': False, 'seed': rng.randrange(1 << 30),
                  'items': [([0], None, [('_isqrt', a) for a in roots])]})
    specs.append({'typ': 'int', 'm': 3, 'no_prss': False, 'seed': rng.randrange(1 << 30),
                  'items': [([0], None, [('_isqrt', a) for a in roots[::4]])]})
    froots = [0.0, ULP, 2 * ULP, 0.25, 0.5, 1.0, 2.0, 3.0, 4.0, 100.0, 2.0 ** (LF - F - 2), 2.0 ** (LF - F - 1) - 1] + \
        [rng.randrange(2 ** (LF - 2)) * ULP for _ in range(ctx.scale(6, 60))]
    specs.append({'typ': 'fxp', 'm': 1, 'no_prss': False, 'seed': rng.randrange(1 << 30),
                  'items': [([0.0], None, [('_fsqrt', a) for a in froots])]})
    return specs


# ---------------------------------------------------------------------------------------------
# checking one record
# ---------------------------------------------------------------------------------------------
def sc(v):
    return round(v * 2 ** F)


def model_lines(rec):
    """Lean driver requests + expected answers for one record (secure-integer semantics and _quickselect)"""
    out = []
    typ, call, x, y, v = rec['typ'], rec['call'], rec['x'], rec['y'], rec['value']
    fn = call[0]
    X = ints_str(x) if typ == 'int' else None
    ans = (lambda s: f'ok {s}') if rec['exc'] is None else (lambda s: f'error:{rec["exc"]}')
    qs = rec['qs']
    rounds = ';'.join(qs['rounds']) if qs and qs['rounds'] else '-'
    nr = len(qs['rounds']) if qs and qs['rounds'] else 0
    if qs is not None and qs['rounds'] is not None:
        xs = x if typ == 'int' else [sc(a) for a in x]
        out.append((f'qs {ints_str(xs)} {ints_str(qs["ks"])} {rounds}', f'ok {ints_str(qs["values"])} used={nr}'))
    if fn == 'quantiles' and len(x) >= 2 and call[1] >= 1 and qs is not None:
        out.append((f'qks {len(x)} {call[1]} {call[2]}', ints_str(qs['ks'])))
    if typ != 'int':
        return out
    if fn == 'mean':
        out.append((f'mean {X}', ans(int(v) if v is not None else '')))
    elif fn in ('variance', 'pvariance'):
        mm = '-' if call[1] is None else str(call[1])
        out.append((f'var {X} {mm} {1 if fn == "variance" else 0}', ans(int(v) if v is not None else '')))
    elif fn in ('stdev', 'pstdev'):
        mm = '-' if call[1] is None else str(call[1])
        out.append((f'std {LI} {X} {mm} {1 if fn == "stdev" else 0}', ans(int(v) if v is not None else '')))
    elif fn in ('median', 'median_low', 'median_high') and qs is not None:
        kind = {'median': 'mid', 'median_low': 'low', 'median_high': 'high'}[fn]
        out.append((f'med {X} {kind} {rounds}', f'ok {int(v)} used={nr}'))
    elif fn == 'quantiles' and qs is not None:
        out.append((f'quant {X} {call[1]} {call[2]} {rounds}', f'ok {ints_str(v)} used={nr}'))
    elif fn == 'mode':
        out.append((f'mode {LI} {rec["priv"]} {X}', ans(int(v) if v is not None else '')))
    elif fn == 'covariance':
        out.append((f'cov {X} {ints_str(y)}', ans(int(v) if v is not None else '')))
    elif fn == '_isqrt':
        out.append((f'isqrt {LI} {call[1]}', str(int(v))))
    return out


def check_record(ctx, rec):
    """independent oracle for one record"""
    typ, call, x, y, v = rec['typ'], rec['call'], rec['x'], rec['y'], rec['value']
    fn = call[0]
    rep = {'kind': 'stat', 'typ': typ, 'm': rec['m'], 'no_prss': rec['no_prss'], 'seed': rec['seed'], 'x': x, 'y': y,
           'call': list(call), 'observed': v if rec['exc'] is None else rec['exc']}
    if not rec['agree']:
        ctx.violation(f'{fn}: parties disagree', rep)
        return
    if fn == '_isqrt':
        if int(v) != math.isqrt(call[1]):
            rep['expected'] = math.isqrt(call[1])
            ctx.violation(f'_isqrt({call[1]}) = {v}, expected {rep["expected"]}', rep)
        return
    if fn == '_fsqrt':
        A, R = sc(call[1]), sc(v)
        if not (R >= 0 and R * R < (A + 1) * 2 ** F and A * 2 ** F <= (R + 1) ** 2):
            rep['expected'] = f'sqrt({call[1]}) = {math.sqrt(call[1])} within the rounding bracket'
            ctx.violation(f'_fsqrt({call[1]}) = {v}', rep)
        return
    try:
        ref = ref_value(call, x, y)
        ref_exc = None
    except Exception as exc:  # noqa
        ref, ref_exc = None, type(exc).__name__
    if ref_exc is not None or rec['exc'] is not None:
        if ref_exc != rec['exc']:
            rep['expected'] = ref_exc or 'a value'
            ctx.violation(f'{fn} on {x}: raises {rec["exc"]}, Python statistics raises {ref_exc}', rep)
        return
    if typ == 'int':
        exp = expected_int(call, x, y)
        got = [int(a) for a in v] if isinstance(v, list) else int(v)
        if got != exp:
            rep['expected'] = exp
            ctx.violation(f'{fn}{call[1:]} on secure integers {x}: {got}, Python (documented rounding) {exp}', rep)
        return
    bound = fxp_bound(call, x, y)
    if fn in ('stdev', 'pstdev'):
        ref = math.sqrt(float(ref))
    refs = [float(a) for a in ref] if isinstance(ref, list) else [float(ref)]
    gots = [float(a) for a in v] if isinstance(v, list) else [float(v)]
    bounds = bound if isinstance(bound, list) else [bound] * len(refs)
    if len(refs) != len(gots) or any(abs(a - b) > c for a, b, c in zip(gots, refs, bounds)):
        rep['expected'] = refs
        rep['bound'] = bounds
        ctx.violation(f'{fn}{call[1:]} on secure fixed-point {x}: {gots}, Python {refs} (bound {bounds})', rep)
    else:
        for a, b, c in zip(gots, refs, bounds):
            if c > 0 and c != float('inf'):
                ctx.count('fxp-error/bound:' + ('<0.1' if abs(a - b) < 0.1 * c else '<0.5' if abs(a - b) < 0.5 * c else '<=1'))


def error_cases(ctx):
    """error behaviour on the real code vs Python's statistics (m = 1)"""
    net = SimNet(1, seed=ctx.seed)

    async def prog(mpc):
        secint, secfxp = _types(mpc)
        res = []
        for st, mk in ((secint, lambda a: secint(a)), (secfxp, lambda a: secfxp(float(a)))):
            one, two = [mk(3)], [mk(3), mk(5)]
            cases = [('mean', lambda: ms.mean([]), lambda: pystat.mean([])),
                     ('median', lambda: ms.median([]), lambda: pystat.median([])),
                     ('median_low', lambda: ms.median_low([]), lambda: pystat.median_low([])),
                     ('median_high', lambda: ms.median_high([]), lambda: pystat.median_high([])),
                     ('mode', lambda: ms.mode([]), lambda: pystat.mode([])),
                     ('variance-1', lambda: ms.variance(one), lambda: pystat.variance([3])),
                     ('stdev-1', lambda: ms.stdev(one), lambda: pystat.stdev([3])),
                     ('variance-0', lambda: ms.variance([]), lambda: pystat.variance([])),
                     ('pvariance-0', lambda: ms.pvariance([]), lambda: pystat.pvariance([])),
                     ('pstdev-0', lambda: ms.pstdev([]), lambda: pystat.pstdev([])),
                     ('pvariance-1', lambda: ms.pvariance(one), lambda: pystat.pvariance([3])),
                     ('quantiles-n0', lambda: ms.quantiles(two, n=0), lambda: pystat.quantiles([3, 5], n=0)),
                     ('quantiles-n-1', lambda: ms.quantiles(two, n=-1), lambda: pystat.quantiles([3, 5], n=-1)),
                     ('quantiles-1pt', lambda: ms.quantiles(one), lambda: pystat.quantiles([3])),
                     ('quantiles-0pt', lambda: ms.quantiles([]), lambda: pystat.quantiles([])),
                     ('quantiles-method', lambda: ms.quantiles(two, method='x'), lambda: pystat.quantiles([3, 5], method='x')),
                     ('covariance-len', lambda: ms.covariance(two, one), lambda: pystat.covariance([3, 5], [3])),
                     ('covariance-1', lambda: ms.covariance(one, one), lambda: pystat.covariance([3], [3])),
                     ('correlation-len', lambda: ms.correlation(two, one), lambda: pystat.correlation([3, 5], [3])),
                     ('correlation-1', lambda: ms.correlation(one, one), lambda: pystat.correlation([3], [3])),
                     ('linreg-len', lambda: ms.linear_regression(two, one), lambda: pystat.linear_regression([3, 5], [3])),
                     ('linreg-1', lambda: ms.linear_regression(one, one), lambda: pystat.linear_regression([3], [3]))]
            for name, f, g in cases:
                res.append((st.__name__, name, py_exc(f), py_exc(g)))
        return res

    for tn, name, got, exp in net.run(prog)[0]:
        ctx.count('error-case')
        ctx.case(('err', tn, name))
        ok = got == exp
        if name == 'pvariance-1':
            ok = got is None and exp is None
        if not ok:
            ctx.violation(f'{name} on {tn}: raises {got}, Python statistics raises {exp}',
                          {'kind': 'error-case', 'type': tn, 'case': name, 'expected': exp, 'observed': got})


def run(ctx):
    specs = make_specs(ctx)
    nproc = 4       # the machine is shared: never more than 4 workers
    with multiprocessing.get_context('fork').Pool(nproc) as pool:
        batches = pool.map(run_batch, specs, chunksize=1)
    lines, impl = [], []
    for recs in batches:
        for rec in recs:
            fn = rec['call'][0]
            ctx.count(f'{rec["typ"]}:{fn}')
            ctx.count(f'm={rec["m"]}:prss={not rec["no_prss"]}')
            ctx.count(f'len={len(rec["x"])}')
            ctx.case((rec['typ'], rec['m'], repr(rec['call']), repr(rec['x']), repr(rec['y']) if fn in (
                'covariance', 'correlation', 'linear_regression') else ''), nontrivial=len(rec['x']) >= 2 or fn.startswith('_'))
            check_record(ctx, rec)
            if rec['qs'] is not None and rec['qs'].get('rounds') is None:
                ctx.mismatch('could not recover the rounds of _quickselect: ' + rec['qs'].get('error', ''),
                             {'kind': 'stat', 'call': list(rec['call']), 'x': rec['x']})
            for req, ans in model_lines(rec):
                lines.append(req)
                impl.append(ans)
            if rec['qs'] and rec['qs']['rounds'] and len(rec['qs']['rounds']) >= 3 and len(ctx.samples) < 3:
                ctx.sample({'call': list(rec['call']), 'type': rec['typ'], 'm': rec['m'], 'x': rec['x'],
                            'value': rec['value'], 'quickselect': rec['qs']})
    error_cases(ctx)
    model = common.LeanDriver('RandStat').run(lines)
    ctx.compare('mpyc.statistics vs MpycV.Stats', impl, model, lines)


def search(ctx):
    rng = ctx.subrng('search')
    specs = []
    for typ in ('int', 'fxp'):
        for k in range(ctx.scale(40, 150)):
            items = []
            for _ in range(6):
                x, y = random_data(rng, typ)
                items.append((x, y, calls_for(x, y, typ, rng, full=False)))
            specs.append({'typ': typ, 'm': 1 if k % 3 else 3, 'no_prss': k % 2 == 1, 'seed': rng.randrange(1 << 30),
                          'items': items})
    with multiprocessing.get_context('fork').Pool(4) as pool:
        for recs in pool.imap_unordered(run_batch, specs):
            for rec in recs:
                check_record(ctx, rec)
            if ctx.violations:
                return


def replay(ctx, data):
    kind = data.get('kind')
    c2 = common.Ctx('C34', 'quick', data.get('seed', 0))
    if kind == 'stat':
        spec = {'typ': data['typ'], 'm': data['m'], 'no_prss': data.get('no_prss', False), 'seed': data.get('seed', 0),
                'items': [(data['x'], data['y'], [tuple(data['call'])])]}
        for rec in run_batch(spec):
            check_record(c2, rec)
        return not c2.violations, (c2.violations[0][0] if c2.violations else 'agrees with Python statistics')
    if kind == 'error-case':
        error_cases(c2)
        v = [x for x in c2.violations if x[1].get('case') == data.get('case')]
        return not v, (v[0][0] if v else 'ok')
    return True, f'unknown replay kind {kind}'
