#!/venv/bin/python
"""Emit the per-property 'as built' table for DESIGN.md (section 8.5) from the check modules and evidence files."""
import glob, json, os, re, importlib.util
HERE = os.path.dirname(os.path.abspath(__file__))
VERIF = os.path.dirname(HERE)
claimed = [l.strip() for l in open(os.path.join(HERE, 'claimed.txt')) if l.strip() and not l.startswith('#')]
print('| id | level | theorems (audited) | required theorems | quick: cases / correspondence lines / wall | status |')
print('|---|---|---|---|---|---|')
for fn in sorted(glob.glob(os.path.join(HERE, 'props', 'c*.py'))):
    pid = os.path.basename(fn)[:-3].upper()
    src = open(fn).read()
    lv = re.search(r"^LEVEL\s*=\s*'(\w+)'", src, re.M)
    req = re.search(r'REQUIRED_THEOREMS\s*=\s*\[([^\]]*)\]', src, re.S)
    reqs = re.findall(r"'([^']+)'", req.group(1)) if req else []
    ev = os.path.join(VERIF, 'evidence', pid + '.json')
    evs = ''
    th = ''
    if os.path.exists(ev):
        d = json.load(open(ev))
        c = d['coverage']
        th = f"{c.get('discharged')}/{c.get('obligations')}"
        evs = f"{c.get('evaluations')} / {c.get('correspondence_lines_compared')} / {d.get('wall_s')} s"
    print(f"| {pid} | {lv.group(1) if lv else '?'} | {th} | {', '.join(reqs[:8])}{' …' if len(reqs) > 8 else ''} | {evs} | {'claimed' if pid in claimed else 'not claimed'} |")
