#!/venv/bin/python
"""seed_import.py <property> <work-dir> <dest-name> <summary> <needs> [--numpy] [checks...]
Copy a sub-agent's deliverables (patch.diff, *.py, notes.md) into seeded/<dest-name>/, write meta.json, and evaluate."""
import json, os, shutil, subprocess, sys, glob
args = [a for a in sys.argv[1:] if a != '--numpy']
numpy = '--numpy' in sys.argv
pid, work, dest, summary, needs = args[:5]
if summary == '@':   # the sub-agent wrote its own two-sentence description
    import json as _j
    _m = _j.load(open(os.path.join(work, 'meta.json')))
    summary, needs = str(_m.get('summary', ''))[:400], str(_m.get('needs_to_manifest', ''))[:400]
checks = args[5:] or [pid]
VERIF = os.path.dirname(os.path.dirname(os.path.abspath(__file__)))
d = os.path.join(VERIF, 'seeded', dest)
os.makedirs(d, exist_ok=True)
for fn in glob.glob(os.path.join(work, '*')):
    if os.path.basename(fn) == 'meta.json':
        continue
    if os.path.isfile(fn) and (fn.endswith(('.py', '.md', '.diff')) ) and os.path.getsize(fn) < 400_000:
        shutil.copy(fn, d)
json.dump({'property': pid, 'summary': summary, 'needs_to_manifest': needs,
           'author': f'independent sub-agent ({os.path.basename(work.rstrip("/"))}), given only the property text'},
          open(os.path.join(d, 'meta.json'), 'w'), indent=1)
env = dict(os.environ)
if numpy:
    env['SEED_NUMPY'] = '1'
subprocess.run([sys.executable, os.path.join(VERIF, 'harness', 'seed_eval.py'), d] + checks, env=env)
m = json.load(open(os.path.join(d, 'meta.json')))
print(dest, 'demo clean rc', m.get('demo_on_clean_tree', {}).get('rc'), '| suite', m.get('baseline_suite_with_patch'),
      '| demo patched rc', m.get('demo_with_patch', {}).get('rc'))
for c, v in m.get('checks', {}).items():
    print(' ', c, 'rc', v['rc'], v['wall_s'], 's')
    for l in v['lines'][-3:]:
        print('     ', l[:300])
