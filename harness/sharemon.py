"""Monitors for the share-level properties (C11, C14, C18): no repo edits, run-time patches only.

ShareMonitor records, per party and per MPyC coroutine instance (keyed by a schedule-independent key:
the program counter the coroutine was forked with, or for coroutines without own pc the ambient
(counter, depth) pair plus an ordinal), the shares that the coroutine's result placeholders receive at
`_reconcile` time; plus every `thresha.random_split` call (arguments and the randbelow draws it made),
every `_random(s)` mask bound, every PRF bound, and every value opened by `Runtime.output` together
with the protocol that opened it.
"""
import asyncio
import sys
import os
sys.path.insert(0, os.path.dirname(os.path.abspath(__file__)))
import simnet
from simnet import CUR, rtmod, asyncoro, thresha, SECRETS
from mpyc import finfields


def field_info(x):
    """(modulus int | None, int value) for a prime field element; None for other things"""
    f = type(x)
    mod = getattr(f, 'modulus', None)
    if isinstance(mod, int) and hasattr(x, 'value') and isinstance(x.value, int):
        return mod, x.value
    return None


def flatten_decl(decl, out):
    if decl is None:
        return
    if isinstance(decl, asyncoro.SecureObject):
        sh = decl.share
        if isinstance(sh, asyncio.Future):
            if sh.done() and not sh.cancelled() and sh.exception() is None:
                sh = sh.result()
            else:
                out.append(None)
                return
        if isinstance(sh, tuple):
            for s in sh:
                flatten_decl(s, out)
            return
        fi = field_info(sh)
        if fi is not None:
            out.append(fi)
        elif hasattr(sh, 'value') and hasattr(sh, 'field') and isinstance(getattr(sh.field, 'modulus', None), int):
            # finite field array over a prime field
            for v in sh.value.reshape(-1).tolist():
                out.append((sh.field.modulus, int(v)))
        else:
            out.append(('ext', repr(sh)))
    elif isinstance(decl, (list, tuple)):
        for d in decl:
            flatten_decl(d, out)


class ShareMonitor:
    def __init__(self, net, record_results=True):
        self.net = net
        m = net.m
        self.results = [dict() for _ in range(m)]     # key -> list of (modulus, value) | None | ('ext', ..)
        self.names = {}                                # key -> coroutine name
        self.splits = [[] for _ in range(m)]           # (t, m, n_secrets, order, draws, origin, secrets)
        self.mask_bounds = [[] for _ in range(m)]      # (origin, requested bound, effective randbelow/PRF bound)
        self.prf_bounds = [[] for _ in range(m)]
        self.opened = [[] for _ in range(m)]           # (origin protocol, [int values])
        # per party, in program order: ('rand', origin, [own shares]) for every _randoms result and
        # ('open', origin, threshold, [own shares handed to Runtime.output]) -- prime fields only, else None entries
        self.events = [[] for _ in range(m)]
        self.zero_shares = [[] for _ in range(m)]      # (origin, p, uci, [own shares of the n zero sharings]) per call
        self.nkeys = [dict() for _ in range(m)]
        self.record_results = record_results

    def __enter__(self):
        mon = self
        self.o = (asyncoro.Task, asyncoro._reconcile, asyncoro._ProgramCounterWrapper, thresha.random_split,
                  rtmod.Runtime._randoms, rtmod.Runtime._np_randoms, thresha.PRF.__init__, rtmod.Runtime.output)
        o_task, o_rec, o_wrap, o_split, o_randoms, o_nprandoms, o_prf, o_output = self.o
        o_zero, o_npzero = self.o2 = (thresha.pseudorandom_share_zero, thresha.np_pseudorandom_share_0)
        o_npsplit = self.o3 = thresha.np_random_split

        class Wrapper(o_wrap):
            __slots__ = ()

            def __init__(w, rt, coro):
                o_wrap.__init__(w, rt, coro)
                rt._verif_lastpc = w.pc[0]

        def Task(coro, loop=None):
            tk = o_task(coro, loop=loop)
            p = CUR.get()
            rt = mon.net.rts[p]
            code = getattr(coro, 'cr_code', None)
            if code is not None and code.co_name == '_wrap_in_coro':
                key = ('w', rt._verif_lastpc)
                name = 'pc-coroutine'
            else:
                base = (rt._program_counter[0], rt._program_counter[1])
                n = mon.nkeys[p].get(base, 0)
                mon.nkeys[p][base] = n + 1
                key = ('n',) + base + (n,)
                name = code.co_name if code is not None else '?'
            tk._verif_key = key
            mon.names.setdefault(key, name)
            return tk

        def _reconcile(decl, task):
            r = o_rec(decl, task)
            if mon.record_results and decl is not None:
                out = []
                flatten_decl(decl, out)
                if out:
                    mon.results[CUR.get()][getattr(task, '_verif_key', ('?', id(task)))] = out
            return r

        def random_split(field, s, t, m):
            p = CUR.get()
            n0 = len(SECRETS.log) if SECRETS.log is not None else 0
            res = o_split(field, s, t, m)
            draws = [e for e in SECRETS.log[n0:] if e[0] == p] if SECRETS.log is not None else []
            secrets_ = [a.value if hasattr(a, 'value') else a for a in s]
            mon.splits[p].append({'t': t, 'm': m, 'n': len(s), 'order': field.order, 'origin': sys._getframe(1).f_code.co_name,
                                  'label': mon.net.rts[p]._program_counter[0],
                                  'byte_length': getattr(field, 'byte_length', None),
                                  'draws': [(e[1], e[2], e[3]) for e in draws], 'secrets': secrets_,
                                  'shares': [[(a.value if hasattr(a, 'value') else a) for a in row] for row in res],
                                  'modulus': field.modulus if isinstance(field.modulus, int) else None})
            return res

        def np_random_split(field, s_, t, m):
            p = CUR.get()
            n0 = len(SECRETS.log) if SECRETS.log is not None else 0
            res = o_npsplit(field, s_, t, m)
            try:
                draws = [e for e in SECRETS.log[n0:] if e[0] == p] if SECRETS.log is not None else []
                sv = getattr(s_, 'value', s_)
                secrets_ = [int(a) if isinstance(a, int) else None for a in list(sv.reshape(-1))]
                shares = [[int(a) if isinstance(a, int) else None for a in list(row)] for row in res]
                mon.splits[p].append({'t': t, 'm': m, 'n': len(secrets_), 'order': field.order, 'np': True,
                                      'origin': sys._getframe(1).f_code.co_name, 'label': mon.net.rts[p]._program_counter[0],
                                      'byte_length': None, 'draws': [(e[1], e[2], e[3]) for e in draws], 'secrets': secrets_,
                                      'shares': shares, 'modulus': field.modulus if isinstance(field.modulus, int) else None})
            except Exception as exc:  # noqa: BLE001  the monitor must never break the run
                mon.splits[p].append({'np': True, 'monitor_error': repr(exc)[:200]})
            return res

        def _ints(xs):
            out = []
            for e in xs:
                v = getattr(e, 'share', e)
                v = getattr(v, 'value', v)
                out.append(int(v) if isinstance(v, int) else None)
            return out

        def _randoms(rt, sftype, n, bound=None):
            origin = sys._getframe(1).f_code.co_name
            if origin == '_random':
                origin = sys._getframe(2).f_code.co_name
            if bound is not None:
                mon.mask_bounds[rt.pid].append((sys._getframe(1).f_code.co_name, bound))
            res = o_randoms(rt, sftype, n, bound)
            ev = ['rand', origin, None]
            mon.events[rt.pid].append(ev)
            if isinstance(res, asyncio.Future):
                def done(f, ev=ev):
                    try:
                        ev[2] = _ints(f.result())
                    except Exception:
                        pass
                res.add_done_callback(done)
            else:
                try:
                    ev[2] = _ints(res)
                except Exception:
                    pass
            return res

        def _np_randoms(rt, sftype, n, bound=None):
            if bound is not None:
                mon.mask_bounds[rt.pid].append((sys._getframe(1).f_code.co_name, bound))
            return o_nprandoms(rt, sftype, n, bound)

        def prf_init(self_, key, bound):
            mon.prf_bounds[CUR.get()].append(bound)
            return o_prf(self_, key, bound)

        def output(rt, x, receivers=None, threshold=None, raw=False):
            origin = sys._getframe(1).f_code.co_name
            try:
                xs = x if isinstance(x, list) else [x]
                if all(not hasattr(e, 'share') or not isinstance(e.share, asyncio.Future) for e in xs):
                    nvals = sum(int(getattr(getattr(e, 'value', None), 'size', 1)) for e in xs)
                    mon.events[rt.pid].append(['open', origin, threshold, _ints(xs), id(sys._getframe(1)), nvals])
            except Exception:
                pass
            fut = o_output(rt, x, receivers, threshold, raw)
            pid = rt.pid

            def log(f, origin=origin, pid=pid):
                try:
                    r = f.result()
                except Exception:
                    return
                vals = r if isinstance(r, list) else [r]
                out = []
                for v in vals:
                    fi = field_info(v)
                    if fi is not None:
                        out.append(fi)
                    elif hasattr(v, 'value') and hasattr(v, 'field') and isinstance(getattr(v.field, 'modulus', None), int):
                        out.extend((v.field.modulus, int(u)) for u in v.value.reshape(-1).tolist())
                    elif isinstance(v, finfields.FiniteFieldElement):
                        out.append(('ext', int(v)))                      # extension fields: base-p digits as an int
                    elif isinstance(v, finfields.FiniteFieldArray):
                        out.extend(('ext', int(u)) for u in v.value.reshape(-1).tolist())
                    else:
                        out.append(('plain', v if isinstance(v, (int, float, bool, str, type(None))) else repr(v)[:60]))
                mon.opened[pid].append((origin, out))
            if isinstance(fut, asyncio.Future):
                fut.add_done_callback(log)
            return fut

        def share_zero(field, m, i, prfs, uci, n):
            fr = sys._getframe(1)
            mon.events[i].append(['zero', fr.f_code.co_name, n, id(fr)])
            res = o_zero(field, m, i, prfs, uci, n)
            try:
                if isinstance(field.modulus, int):
                    mon.zero_shares[i].append((fr.f_code.co_name, int(field.modulus), bytes(uci), [int(v.value) for v in res]))
            except Exception:
                pass
            return res

        def np_share_zero(field, m, i, prfs, uci, n):
            fr = sys._getframe(1)
            mon.events[i].append(['zero', fr.f_code.co_name, n, id(fr)])
            return o_npzero(field, m, i, prfs, uci, n)

        thresha.np_random_split = np_random_split
        thresha.pseudorandom_share_zero = share_zero
        thresha.np_pseudorandom_share_0 = np_share_zero
        rtmod.Runtime.output = output
        asyncoro._ProgramCounterWrapper = Wrapper
        asyncoro.Task = Task
        asyncoro._reconcile = _reconcile
        thresha.random_split = random_split
        rtmod.Runtime._randoms = _randoms
        rtmod.Runtime._np_randoms = _np_randoms
        thresha.PRF.__init__ = prf_init
        self._log_was = SECRETS.log
        if SECRETS.log is None:
            SECRETS.log = []
        return self

    def __exit__(self, *exc):
        (asyncoro.Task, asyncoro._reconcile, asyncoro._ProgramCounterWrapper, thresha.random_split,
         rtmod.Runtime._randoms, rtmod.Runtime._np_randoms, thresha.PRF.__init__, rtmod.Runtime.output) = self.o
        thresha.pseudorandom_share_zero, thresha.np_pseudorandom_share_0 = self.o2
        thresha.np_random_split = self.o3
        SECRETS.log = self._log_was
        return False


# ---- independent interpolation oracle over GF(p) (textbook Lagrange, written from the definition) -----
def inv_mod(a, p):
    return pow(a % p, p - 2, p)


def interpolate_at(points, x, p):
    """value at x of the unique polynomial of degree < len(points) through points [(xi, yi)] mod p"""
    tot = 0
    for i, (xi, yi) in enumerate(points):
        num, den = 1, 1
        for j, (xj, _) in enumerate(points):
            if i != j:
                num = num * (x - xj) % p
                den = den * (xi - xj) % p
        tot = (tot + yi * num * inv_mod(den, p)) % p
    return tot


def consistent(shares, t, p):
    """shares[i] of party i at x = i+1. Returns (ok, secret): lie on a polynomial of degree <= t?"""
    m = len(shares)
    pts = [(i + 1, shares[i] % p) for i in range(min(t + 1, m))]
    for i in range(t + 1, m):
        if interpolate_at(pts, i + 1, p) != shares[i] % p:
            return False, None
    return True, interpolate_at(pts, 0, p)


def degree_of(shares, p):
    """least d such that the shares lie on a polynomial of degree <= d"""
    for d in range(len(shares)):
        if consistent(shares, d, p)[0]:
            return d
    return len(shares) - 1
