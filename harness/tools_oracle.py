"""Independent reference implementations for the Tools area (C30): plain Python integers only.

Written from the mathematical definitions, not from runtime.py and not from the Lean model.
"""


def from_bits(x):
    """value of a little-endian bit vector"""
    return sum(b << i for i, b in enumerate(x))


def low_bits(a, l):
    """the l least significant bits of the integer a (two's complement for negative a)"""
    a %= 1 << l if l else 1
    return [(a >> i) & 1 for i in range(l)]


def add_bits(x, y):
    """binary addition modulo 2^len(x)"""
    n = len(x)
    return low_bits(from_bits(x) + from_bits(y), n)


def find_index(x, a):
    """(not_found, index of the first occurrence of a in x or len(x))"""
    for i, b in enumerate(x):
        if b == a:
            return 0, i
    return 1, len(x)


def unit_vector(a, n):
    """a-th unit vector of length n; the documented wrap a = n -> e_0"""
    a = 0 if a == n else a
    return [1 if i == a else 0 for i in range(n)]


def trailing_zero_count(a, l):
    """number of trailing zero bits of a mod 2^l (l if that is 0)"""
    a %= 1 << l if l else 1
    if a == 0:
        return l
    return (a & -a).bit_length() - 1


def gcp2(a, b, l):
    """greatest power of two dividing both a and b, looking at l bits (2^l if both vanish mod 2^l)"""
    return 1 << min(trailing_zero_count(a, l), trailing_zero_count(b, l))
