#!/venv/bin/python
"""Regenerate /verif/MANIFEST.json from the per-property check modules (harness/props/cXX.py).

A property is claimed when its module exists and is listed in CLAIMED below; everything else goes to
not_applicable with the reason given in PENDING (work in progress) — kept current by hand.
"""
import importlib
import json
import os
import sys

HERE = os.path.dirname(os.path.abspath(__file__))
VERIF = os.path.dirname(HERE)
sys.path.insert(0, HERE)

# id -> (DESIGN section, technique, one-line level text)
INFO = {
    'C01': ('5/C01', 'Lean 4 proof of the protocol value layer (Toft comparison, lsb, mod, trunc, products) + differential correspondence on the multi-party simulator', ''),
    'C02': ('5/C02', 'Lean 4 proof of exact ops / trunc / product bounds; differential exploration vs exact rationals for division, sin/cos', ''),
    'C03': ('5/C03', 'Lean 4 proof of the flag-soundness invariant over all operations + correspondence of flags and values', ''),
    'C04': ('5/C04', 'Lean 4 proof over arbitrary finite fields (Mathlib) + exhaustive small-field correspondence incl. lifted fields', ''),
    'C05': ('5/C05', 'Lean 4 proof of normalisation/product facts; differential exploration vs exact rationals for sums/quotients', ''),
    'C06': ('5/C06', 'Lean 4 proof of the masked conversion for all masks + pairwise type correspondence', ''),
    'C07': ('5/C07', 'Lean 4 proof of send/receive pattern symmetry (exactly one consumer) + pattern correspondence on simulator runs', ''),
    'C08': ('5/C08', 'Lean 4 proof of label determinism (operational = denotational program-counter semantics) + exact label replay + schedule exploration', ''),
    'C09': ('5/C09', 'Lean 4 proof of exactly-once consumption for any arrival/receive interleaving + wire monitor on simulator runs', ''),
    'C10': ('5/C10', 'Lean 4 proof of chunking invariance (feed_append, any_chunking, round trip) + differential correspondence with MessageExchanger', ''),
    'C11': ('5/C11', 'Lean 4 proof of share consistency through deal/linear/multiply/reshare + interpolation monitor on simulator runs', ''),
    'C12': ('5/C12', 'Lean 4 proof via Mathlib Lagrange interpolation + exhaustive small-field correspondence', ''),
    'C13': ('5/C13', 'Lean 4 counting proof of share uniformity + exhaustive enumeration of dealer randomness', ''),
    'C14': ('5/C14', 'Lean 4 proof of dealing degree/freshness in the model + call monitor and wire scan on simulator runs', ''),
    'C15': ('5/C15', 'Lean 4 proof of PRSS consistency for all key families + real PRF correspondence', ''),
    'C16': ('5/C16', 'Lean 4 proof of key distribution for all m,t + kernel-checked extracted key tables', ''),
    'C17': ('5/C17', 'Lean 4 proof of PRF post-processing (range, length, prefix) + SHAKE digest correspondence', ''),
    'C18': ('5/C18', 'Lean 4 proof of per-opening masking lemmas + mask-range monitor on simulator runs', ''),
    'C19': ('5/C19', 'Lean 4 proof that non-receivers are no message target + traffic monitor for all secure type families', ''),
    'C20': ('5/C20', 'Lean 4 proof of field laws via isomorphism to ZMod p / polynomial quotient + exhaustive operator correspondence', ''),
    'C21': ('5/C21', 'Lean 4 proof via Euler criterion (Blum primes, binary fields) + exhaustive small-field tables', ''),
    'C22': ('5/C22', 'Lean 4 proof of byte round trip and integer views + pickle correspondence', ''),
    'C23': ('5/C23', 'Lean 4 proof via homomorphism to Mathlib Polynomial (ZMod p) + exhaustive small-degree correspondence', ''),
    'C24': ('5/C24', 'Lean 4 proof of search correctness + kernel-checked irreducibility tables on the bounded domain', ''),
    'C25': ('5/C25', 'Lean 4 proof of the gmpy stubs against Mathlib number theory + exhaustive range correspondence', ''),
    'C26': ('5/C26', 'Lean 4 proof of the prime/root constraints relative to a primality oracle + sympy-checked correspondence', ''),
    'C27': ('5/C27', 'Lean 4 proof of repeat, permutation, modular groups and coordinate-formula identities; differential exploration for the other families', ''),
    'C28': ('5/C28', 'Lean 4 proof of the exponent recombination identities; differential exploration vs plain groups on the simulator', ''),
    'C29': ('5/C29', 'Lean 4 proof of the 0-1 principle + kernel-checked networks extracted from the running code', ''),
    'C30': ('5/C30', 'Lean 4 proof by induction over all lengths + exhaustive small-input correspondence on the simulator', ''),
    'C31': ('5/C31', 'Lean 4 refinement proof to Python list semantics over arbitrary histories + history correspondence', ''),
    'C32': ('5/C32', 'Lean 4 proof for any associative operation, all lengths + free-monoid correspondence', ''),
    'C33': ('5/C33', 'Lean 4 proof of ranges for every bit stream, kernel enumeration of uniformity + enumerated-bit-stream correspondence', ''),
    'C34': ('5/C34', 'Lean 4 proof of the integer formulas/order statistics; differential exploration vs Python statistics', ''),
    'C35': ('5/C35', 'Lean 4 proof of the level invariant and shutdown handshake + level replay and checkpoint monitor', ''),
    'C36': ('5/C36', 'Lean 4 proof that any stream prefix delivers a prefix of intact frames + fault enumeration at byte granularity', ''),
    'C37': ('5/C37', 'differential translation validation vs NumPy and secure scalars, with Lean shape/index theorems', ''),
    'C38': ('5/C38', 'differential translation validation vs gfpx, with Lean slack-invariance theorems', ''),
    'C39': ('5/C39', 'Lean 4 proof of parameter resolution + exhaustive small-grid correspondence', ''),
}

CLAIMED = os.environ.get('VERIF_CLAIMED', '').split() or None   # override for experiments
PENDING_REASON = 'check under construction in this round: not yet claimed'


def main():
    claimed_file = os.path.join(HERE, 'claimed.txt')
    claimed = CLAIMED or [l.strip() for l in open(claimed_file) if l.strip() and not l.startswith('#')]
    checks, na = [], []
    for pid in sorted(INFO):
        sec, tech, _ = INFO[pid]
        modfile = os.path.join(HERE, 'props', pid.lower() + '.py')
        if pid in claimed and os.path.exists(modfile):
            src = open(modfile).read()
            mod_level = 'proof'
            for lv in ('proof', 'other', 'translation_validation', 'model_checking', 'exploration', 'fault_enumeration'):
                if f"LEVEL = '{lv}'" in src:
                    mod_level = lv
            doc = src.split('"""')[1].strip() if '"""' in src else ''
            checks.append({
                'property_id': pid,
                'quick_cmd': f'/venv/bin/python harness/check.py {pid} --tier quick',
                'thorough_cmd': f'/venv/bin/python harness/check.py {pid} --tier thorough',
                'evidence_file': f'evidence/{pid}.json',
                'replay_cmd_template': f'/venv/bin/python harness/check.py {pid} --replay {{path}}',
                'engine': 'lean4-proof+correspondence',
                'level_claimed': {'category': mod_level, 'text': ' '.join(doc.split())[:1500],
                                  'design_ref': 'DESIGN.md section ' + sec},
                'level_note': ('Trusted: Lean 4 kernel, Mathlib v4.33, axioms propext/Classical.choice/Quot.sound only (audited per '
                               'theorem on every run; no native_decide/bv_decide/own axioms); the hand-written model is tied to /repo '
                               'by the correspondence harness in harness/props/' + pid.lower() + '.py; see DESIGN.md section 3 and the '
                               'ASSUMPTIONS list in the evidence file.'),
                'technique': tech,
            })
        else:
            na.append({'property_id': pid, 'reason': PENDING_REASON})
    man = {
        'version': 1,
        'setup_cmd': './setup.sh',
        'hooks': {
            'guard': 'MPYC_VERIF',
            'enable': 'no hooks are needed: the harness drives the unmodified code in-process (harness/simnet.py, harness/obs.py '
                      'monkeypatch at run time); MPYC_VERIF is reserved and unused',
            'baseline_off_cmd': 'cd /repo && /venv/bin/python -m pytest -ra -q -p no:cacheprovider --timeout=900 '
                                '--continue-on-collection-errors',
            'source_commits': [],
            'add_only': True,
        },
        'engines': [{'name': 'lean4-proof+correspondence', 'path': 'harness/check.py',
                     'serves_properties': [c['property_id'] for c in checks],
                     'kind_free_text': 'Lean 4 theorems about executable models (lean/MpycV), tied to /repo on every run by a '
                                       'differential correspondence (Lean line-protocol drivers vs the real code, multi-party '
                                       'in-process simulator) and an independent property oracle that yields replays'}],
        'checks': checks,
        'notes': 'Verdict rules, trusted base, per-property models/theorems and known findings: DESIGN.md. Known findings: '
                 'known_findings.json (open entries print KNOWN-FINDING lines; fixed entries list the fix: commits in /repo).',
        'not_applicable': na,
    }
    with open(os.path.join(VERIF, 'MANIFEST.json'), 'w') as f:
        json.dump(man, f, indent=1)
    print(f'{len(checks)} checks claimed, {len(na)} not claimed')


if __name__ == '__main__':
    main()
