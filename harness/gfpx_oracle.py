"""Independent reference arithmetic for polynomials over GF(p) (oracle for properties C23 and C24).

Written from the textbook definitions, NOT from /repo/mpyc/gfpx.py and NOT from the Lean model:
a polynomial is a Python list of coefficients in {0..p-1}, least significant first, without trailing
zeros ([] is the zero polynomial).  Everything is the plain definition: schoolbook sums and products
(double loop), long division (cancel the leading term until the degree drops below the divisor's),
gcd = the monic common divisor of maximal degree (brute force over all monic candidates on tiny domains,
Euclid otherwise, Bezout certificate check), inverse/power by definition, irreducibility by exhaustive
trial division / by the sieve of all products / by Rabin's test.

Only Python ints and lists are used; nothing is imported from mpyc.
"""
import itertools


# ---------------------------------------------------------------------------------------------
# representation
# ---------------------------------------------------------------------------------------------
def norm(p, a):
    """Reduce all coefficients mod p and strip trailing zeros."""
    r = [c % p for c in a]
    while r and r[-1] == 0:
        r.pop()
    return r


def deg(a):
    """Degree of a normalised coefficient list (-1 for the zero polynomial)."""
    return len(a) - 1


def coeff(a, i):
    return a[i] if 0 <= i < len(a) else 0


def is_wellformed(p, a):
    """a is a list of ints in {0..p-1} without trailing zero."""
    return (isinstance(a, list) and all(isinstance(c, int) and not isinstance(c, bool) and 0 <= c < p for c in a)
            and (not a or a[-1] != 0))


def bits_to_list(n):
    """Bitmask -> coefficient list over GF(2) (bit i = coefficient of X^i)."""
    if n < 0:
        raise ValueError('negative bitmask')
    return [int(ch) for ch in reversed(bin(n)[2:])] if n else []


def list_to_bits(a):
    return sum((c & 1) << i for i, c in enumerate(a))


# ---------------------------------------------------------------------------------------------
# ring operations (definitions)
# ---------------------------------------------------------------------------------------------
def add(p, a, b):
    return norm(p, [coeff(a, i) + coeff(b, i) for i in range(max(len(a), len(b)))])


def neg(p, a):
    return norm(p, [-c for c in a])


def sub(p, a, b):
    return norm(p, [coeff(a, i) - coeff(b, i) for i in range(max(len(a), len(b)))])


def mul(p, a, b):
    """c_k = sum_{i+j=k} a_i b_j."""
    if not a or not b:
        return []
    c = [0] * (len(a) + len(b) - 1)
    for i in range(len(a)):
        for j in range(len(b)):
            c[i + j] += a[i] * b[j]
    return norm(p, c)


def scal(p, c, a):
    return norm(p, [c * x for x in a])


def shift(a, n):
    """a * X^n for n >= 0."""
    return [0] * n + list(a) if a else []


def unshift(a, n):
    """Quotient of a by X^n (n >= 0)."""
    return list(a[n:])


def inv_p(p, c):
    """Inverse of c modulo the prime p (by Fermat; independent of gmpy2)."""
    c %= p
    if c == 0:
        raise ZeroDivisionError('0 has no inverse mod p')
    r = pow(c, p - 2, p) if p > 2 else 1
    assert r * c % p == 1
    return r


def divmod_(p, a, b):
    """Long division by definition: returns (q, r) with a = q b + r and deg r < deg b."""
    b = norm(p, b)
    if not b:
        raise ZeroDivisionError('division by the zero polynomial')
    r = norm(p, a)
    q = [0] * max(len(r) - len(b) + 1, 0)
    u = inv_p(p, b[-1])
    while len(r) >= len(b):
        k = len(r) - len(b)
        c = r[-1] * u % p                       # cancels the leading term of r
        q[k] = c
        r = norm(p, [r[i] - (c * b[i - k] if i >= k else 0) for i in range(len(r))])
    return norm(p, q), r


def mod(p, a, b):
    return divmod_(p, a, b)[1]


def divides(p, d, a):
    """d | a (everything divides 0; 0 divides only 0)."""
    if not d:
        return not norm(p, a)
    return not mod(p, a, d)


def monic(p, a):
    a = norm(p, a)
    return scal(p, inv_p(p, a[-1]), a) if a else []


def satisfies_division(p, a, b, q, r):
    """The defining property of (q, r) = divmod(a, b)."""
    return (is_wellformed(p, q) and is_wellformed(p, r) and deg(r) < deg(b)
            and add(p, mul(p, q, b), r) == norm(p, a))


# ---------------------------------------------------------------------------------------------
# enumeration of small domains
# ---------------------------------------------------------------------------------------------
def all_monic(p, d):
    """All monic polynomials of degree d (d >= 0), in increasing integer order."""
    for hi in itertools.product(range(p), repeat=d):
        yield list(reversed(hi)) + [1]


def all_polys(p, maxdeg):
    """All polynomials of degree <= maxdeg, in increasing integer order (zero first)."""
    for n in range(p ** (maxdeg + 1)):
        yield from_int(p, n)


# ---------------------------------------------------------------------------------------------
# gcd, Bezout, inverse, powers
# ---------------------------------------------------------------------------------------------
def gcd(p, a, b):
    """Monic gcd by Euclid's remainder sequence; gcd(0, 0) = 0."""
    a, b = norm(p, a), norm(p, b)
    while b:
        a, b = b, mod(p, a, b)
    return monic(p, a)


def gcd_brute(p, a, b):
    """The monic common divisor of maximal degree, by exhaustive search (tiny domains only)."""
    a, b = norm(p, a), norm(p, b)
    if not a and not b:
        return []
    top = min(deg(x) for x in (a, b) if x)
    for d in range(top, -1, -1):
        for g in all_monic(p, d):
            if divides(p, g, a) and divides(p, g, b):
                return g
    raise AssertionError('1 divides everything')


def common_divisors_divide(p, a, b, g, maxdeg):
    """Every (monic) common divisor of degree <= maxdeg divides g (exhaustive)."""
    for d in range(maxdeg + 1):
        for c in all_monic(p, d):
            if divides(p, c, a) and divides(p, c, b) and not divides(p, c, g):
                return False
    return True


def is_bezout(p, a, b, d, s, t):
    """s a + t b = d."""
    return add(p, mul(p, s, a), mul(p, t, b)) == norm(p, d)


def is_gcd_certified(p, a, b, d, s, t):
    """d is THE gcd of a and b: monic (or 0 = gcd(0,0)), divides both, and is a combination s a + t b
    (hence every common divisor divides d)."""
    d = norm(p, d)
    if not norm(p, a) and not norm(p, b):
        return d == []
    return (bool(d) and d[-1] == 1 and divides(p, d, a) and divides(p, d, b)
            and is_bezout(p, a, b, d, s, t))


def xgcd(p, a, b):
    """Extended Euclid (iterative): (d, s, t), d monic gcd, s a + t b = d."""
    r0, r1 = norm(p, a), norm(p, b)
    s0, s1, t0, t1 = [1], [], [], [1]
    while r1:
        q, r = divmod_(p, r0, r1)
        r0, r1 = r1, r
        s0, s1 = s1, sub(p, s0, mul(p, q, s1))
        t0, t1 = t1, sub(p, t0, mul(p, q, t1))
    if r0:
        u = inv_p(p, r0[-1])
        r0, s0, t0 = scal(p, u, r0), scal(p, u, s0), scal(p, u, t0)
    assert is_bezout(p, a, b, r0, s0, t0)
    return r0, s0, t0


def one_mod(p, b):
    """The canonical representative of 1 modulo b (0 when b is a nonzero constant)."""
    return mod(p, [1], b)


def inverse(p, a, b):
    """The polynomial u with deg u < deg b and a u = 1 (mod b); ZeroDivisionError if b = 0 or none exists."""
    b = norm(p, b)
    if not b:
        raise ZeroDivisionError('zero modulus')
    d, s, _ = xgcd(p, mod(p, a, b), b)
    if deg(d) != 0:
        raise ZeroDivisionError('inverse does not exist')
    u = mod(p, s, b)
    assert mod(p, mul(p, a, u), b) == one_mod(p, b)
    return u


def inverse_brute(p, a, b):
    """Search all u of degree < deg b for a u = 1 (mod b); None if there is none (tiny domains only)."""
    b = norm(p, b)
    if not b:
        raise ZeroDivisionError('zero modulus')
    one = one_mod(p, b)
    for n in range(p ** deg(b)):
        u = from_int(p, n)
        if mod(p, mul(p, a, u), b) == one:
            return u
    return None


def power(p, a, n, b=None):
    """a^n by n successive multiplications, reduced modulo b after every step (b None: no reduction).

    Negative n: powers of the inverse of a modulo b (ValueError without modulus, ZeroDivisionError
    if a is not invertible)."""
    a = norm(p, a)
    if n < 0:
        if b is None:
            raise ValueError('negative exponent without modulus')
        a, n = inverse(p, a, b), -n
    red = (lambda x: x) if b is None else (lambda x: mod(p, x, b))
    r = red([1])
    for _ in range(n):
        r = red(mul(p, r, a))
    return r


def power_big(p, a, n, b):
    """a^n mod b for large n >= 0 (right-to-left binary method); cross-checked against `power`."""
    r, s = mod(p, [1], b), mod(p, a, b)
    while n:
        if n & 1:
            r = mod(p, mul(p, r, s), b)
        n >>= 1
        if n:
            s = mod(p, mul(p, s, s), b)
    return r


# ---------------------------------------------------------------------------------------------
# order, integers, evaluation, strings
# ---------------------------------------------------------------------------------------------
def lt(a, b):
    """Lexicographic order: lower degree first (zero polynomial smallest), then compare coefficients
    from the highest power down."""
    if deg(a) != deg(b):
        return deg(a) < deg(b)
    for i in range(len(a) - 1, -1, -1):
        if a[i] != b[i]:
            return a[i] < b[i]
    return False


def to_int(p, a):
    return sum(c * p ** i for i, c in enumerate(a))


def from_int(p, n):
    """Base-p digits of n >= 0; for n < 0 the additive inverse of the polynomial of -n."""
    if n < 0:
        return neg(p, from_int(p, -n))
    d = []
    while n:
        d.append(n % p)
        n //= p
    return d


def eval_direct(p, a, x):
    return sum(c * x ** i for i, c in enumerate(a)) % p


def eval_horner(p, a, x):
    y = 0
    for c in reversed(a):
        y = (y * x + c) % p
    return y


def parse_terms(p, s):
    """Sum of terms 'c', 'cx', 'x', 'cx^i', 'x^i' separated by '+', whitespace ignored."""
    d = {}
    for term in ''.join(s.split()).split('+'):
        if 'x' not in term:
            c, i = int(term), 0
        else:
            c, _, e = term.partition('x')
            c = int(c) if c else 1
            i = int(e[1:]) if e else 1
            if e and e[0] != '^':
                raise ValueError(term)
        d[i] = d.get(i, 0) + c
    return norm(p, [d.get(i, 0) for i in range(max(d, default=-1) + 1)])


def scrambled_terms(p, a, rng, binary=False):
    """A string denoting a: shuffled terms, some coefficients split in two, random blanks."""
    terms = []
    for i, c in enumerate(a):
        if not c:
            continue
        parts = [c]
        if not binary and c >= 2 and rng.random() < 0.4:
            k = rng.randrange(1, c)
            parts = [k, c - k]
        elif rng.random() < 0.15:
            parts = [c, 1, p - 1] if not binary else [c, 1, 1]       # + x^i + (p-1) x^i = + 0
        for c_ in parts:
            cs = '' if c_ == 1 and (binary or rng.random() < 0.7) else str(c_)
            terms.append(str(c_) if i == 0 else f'{cs}x' if i == 1 else f'{cs}x^{i}')
    if not terms or rng.random() < 0.1:
        terms.append('0')
    rng.shuffle(terms)
    sp = lambda: ' ' * rng.choice((0, 0, 1, 2))
    return sp() + (sp() + '+' + sp()).join(terms) + sp()


# ---------------------------------------------------------------------------------------------
# irreducibility
# ---------------------------------------------------------------------------------------------
def find_factor(p, f):
    """A monic factor g of f with 1 <= deg g <= deg f / 2, by exhaustive trial division; None if none."""
    f = norm(p, f)
    for d in range(1, deg(f) // 2 + 1):
        for g in all_monic(p, d):
            if not mod(p, f, g):
                return g
    return None


def is_irreducible_brute(p, f):
    """Definition: degree >= 1 and no factorisation into two polynomials of degree >= 1
    (a non-monic polynomial is irreducible iff its monic associate is: divisibility ignores units)."""
    f = norm(p, f)
    return deg(f) >= 1 and find_factor(p, monic(p, f)) is None


def sieve_reducible(p, maxdeg):
    """Integer values of all monic reducible polynomials of degree <= maxdeg: all products g h with
    deg g, deg h >= 1 (the definition of reducible)."""
    red = set()
    for d1 in range(1, maxdeg // 2 + 1):
        for d2 in range(d1, maxdeg - d1 + 1):
            hs = list(all_monic(p, d2))
            for g in all_monic(p, d1):
                for h in hs:
                    red.add(to_int(p, mul(p, g, h)))
    return red


def monic_irreducibles(p, maxdeg):
    """Sorted integer values of all monic irreducible polynomials of degree 1..maxdeg (sieve)."""
    red = sieve_reducible(p, maxdeg)
    return [n for d in range(1, maxdeg + 1) for n in range(p ** d, 2 * p ** d) if n not in red]


def prime_factors(n):
    f, q = [], 2
    while q * q <= n:
        if n % q == 0:
            f.append(q)
            while n % q == 0:
                n //= q
        q += 1
    if n > 1:
        f.append(n)
    return f


def is_irreducible_rabin(p, f):
    """Rabin's test: f of degree d >= 1 is irreducible iff X^(p^d) = X (mod f) and
    gcd(X^(p^(d/q)) - X, f) = 1 for every prime q | d."""
    f = monic(p, f)
    d = deg(f)
    if d < 1:
        return False
    x = [0, 1]
    frob = [mod(p, x, f)]                      # frob[k] = X^(p^k) mod f
    for _ in range(d):
        frob.append(power_big(p, frob[-1], p, f))
    if frob[d] != frob[0]:
        return False
    for q in prime_factors(d):
        if gcd(p, sub(p, frob[d // q], x), f) != [1]:
            return False
    return True


BRUTE_LIMIT = 3000   # max number of trial divisors per brute-force test


def small_factor(p, f, limit=400):
    """A monic factor of small degree found by trial division (at most `limit` candidates), or None."""
    f = norm(p, f)
    tried = 0
    for d in range(1, deg(f) // 2 + 1):
        tried += p ** d
        if tried > limit:
            break
        for g in all_monic(p, d):
            if not mod(p, f, g):
                return g
    return None


def is_irreducible(p, f):
    """Brute force (the definition) when affordable; otherwise a found small factor proves reducibility and
    Rabin's test decides the rest."""
    f = norm(p, f)
    if deg(f) < 1:
        return False
    h = deg(f) // 2
    if sum(p ** k for k in range(1, h + 1)) <= BRUTE_LIMIT:
        return is_irreducible_brute(p, f)
    if small_factor(p, f) is not None:
        return False
    return is_irreducible_rabin(p, f)


def next_irreducible(p, n, test=is_irreducible):
    """The smallest monic irreducible polynomial whose integer value (base p) exceeds n, by scanning
    the integers upward.  Returned as a coefficient list."""
    m = max(n + 1, p)                           # degree >= 1 needed
    while True:
        c = from_int(p, m)
        if c[-1] != 1:                          # not monic: jump to X^(deg+1)
            m = p ** len(c)
            continue
        if test(p, c):
            return c
        m += 1


def find_irreducible(p, d, test=is_irreducible):
    """Smallest monic irreducible polynomial of degree d >= 1 (integer order)."""
    c = next_irreducible(p, p ** d - 1, test)
    assert deg(c) == d, 'there is an irreducible polynomial of every degree'
    return c


# ---------------------------------------------------------------------------------------------
# self check of the oracle (cross-checks its independent definitions against each other)
# ---------------------------------------------------------------------------------------------
def selfcheck():
    """Returns a list of inconsistencies inside the oracle (must be empty)."""
    bad = []
    for p, D in ((2, 3), (3, 2), (5, 1)):
        polys = list(all_polys(p, D))
        for a in polys:
            if from_int(p, to_int(p, a)) != a:
                bad.append(('int', p, a))
            for x in range(-2, p + 2):
                if eval_direct(p, a, x) != eval_horner(p, a, x):
                    bad.append(('eval', p, a, x))
            for b in polys:
                if gcd(p, a, b) != gcd_brute(p, a, b):
                    bad.append(('gcd', p, a, b))
                if not common_divisors_divide(p, a, b, gcd(p, a, b), D):
                    bad.append(('gcd-greatest', p, a, b))
                d, s, t = xgcd(p, a, b)
                if not is_gcd_certified(p, a, b, d, s, t) or d != gcd(p, a, b):
                    bad.append(('xgcd', p, a, b))
                if b:
                    q, r = divmod_(p, a, b)
                    if not satisfies_division(p, a, b, q, r):
                        bad.append(('divmod', p, a, b))
                    try:
                        u = inverse(p, a, b)
                    except ZeroDivisionError:
                        u = None
                    if u != inverse_brute(p, a, b):
                        bad.append(('inverse', p, a, b))
                    for n in (0, 1, 2, 5, 11):
                        if power(p, a, n, b) != power_big(p, a, n, b):
                            bad.append(('power', p, a, n, b))
                if (lt(a, b), lt(b, a), a == b).count(True) != 1 or lt(a, b) != (to_int(p, a) < to_int(p, b)):
                    bad.append(('lt', p, a, b))
    for p, D in ((2, 8), (3, 5), (5, 3), (7, 3)):
        irr = set(monic_irreducibles(p, D))
        for d in range(0, D + 1):
            for f in all_monic(p, d):
                v = to_int(p, f) in irr
                if is_irreducible_brute(p, f) != v or is_irreducible_rabin(p, f) != v:
                    bad.append(('irreducible', p, f))
        for d in range(1, D + 1):
            if to_int(p, find_irreducible(p, d)) != min(n for n in irr if n >= p ** d):
                bad.append(('find_irreducible', p, d))
    return bad
