"""Source translator for mpyc/mpctools.py: Python AST -> Lean 4 definitions that are POLYMORPHIC in the element type and take
the binary operation `f` as a parameter (extension of harness/py2lean.py, which is imported but unchanged; stdlib `ast` only).

    python harness/py2lean_tools.py [out.lean]        (reads $VERIF_REPO/mpyc/mpctools.py, default /repo)

Output: lean/MpycV/Generated/MpctoolsSrc.lean (namespace MpycV.MpctoolsSrc); lean/MpycV/PropsGen/C32Src.lean proves the generated
`reduce` and `accumulate` equal to the hand-written model MpycV.Model.Tools for EVERY `f` (mirror + bridge lemmas), so the C32
theorems (reduce = fold, accumulate = prefix folds for associative f) hold for the code generated from the current source.

Translation rules (the trusted part of the tie; everything else is checked by Lean):
* signatures, loop fuels and recursion fuels are hand-written annotations (SPECS): `f` -> `(f : α → α → α)`; an iterable
  argument -> `List α` (the list of its items); a parameter with default `_no_value` / `None` -> `Option _`;
  `runtime.options.no_prss` -> the explicit parameter `no_prss : Bool`; strings -> `String`; ints -> `Int`.
* `x = list(x)` -> `pyList x`; `x.insert(i, e)` -> `pyInsert`; `len(x)`; `l[i]` reads -> `pyGet?` (IndexError if out of range,
  negative indices wrap), `l[i] = e` -> `pySet?`; `l[a:b]` -> `pySlice`, `l[a:b] = it` -> `pySliceSet` (step 1, omitted bounds
  allowed; the right-hand side is evaluated completely before the list is changed, as CPython does);
  generator expressions / list comprehensions over `range(a, b[, s])` (s a positive literal) or a list -> `List.map`, or
  `pyMapM` if the element expression may raise; `iter(x)` -> `x` (the list of items the iterator yields).
* `f(a, b)` -> `f a b`; `a // c`, `a % c` for a positive literal c -> Lean `/`, `%` on Int (floor semantics agree);
  comparisons, `and`/`or`/`not`, truthiness of ints (`if i:` -> `i ≠ 0`) and lists (`not x` -> `x.isEmpty`), `e1 if c else e2`.
* `if v is not _no_value:` / `if v is None:` -> `match v with | some v' | none`; other `if` statements that are not the last
  statement of their block become ONE expression returning the tuple of the variables they (re)bind (`raise` -> `.error`);
  a last `if` continues in both branches.
* `while c: body` -> ONE call of the generic `PyLoop.loop` on the tuple of loop-carried variables.
* a nested `def g(params)` that mutates lists of the enclosing function is lambda-lifted to `<fn>.g_k` with an explicit fuel
  argument (structural recursion on the fuel, `.error .fuel` at 0), the mutated lists are passed in and returned (state
  passing); read-only captured variables become extra parameters; a call `g(args)` as a statement rebinds the state.
  Binding `g` in several branches of an `if` makes `g` a function-valued variable of the joined tuple.
* exceptions -> `Except TErr` (TypeError, ValueError, IndexError).  An unsupported construct never crashes the checker:
  the function is emitted as `<name>.untranslated : String`.
"""
import ast
import os
import sys

HERE = os.path.dirname(os.path.abspath(__file__))
if HERE not in sys.path:
    sys.path.insert(0, HERE)
from py2lean import Unsupported, ind, lname, tuple_pat  # noqa: E402

E, I, B, LE, OE, S, OS, F2 = 'E', 'I', 'B', 'LE', 'OE', 'S', 'OS', 'F2'
LTY = {E: 'α', I: 'Int', B: 'Bool', LE: 'List α', OE: 'Option α', S: 'String', OS: 'Option String'}
ERRORS = {'TypeError': '.typeError', 'ValueError': '.valueError', 'IndexError': '.indexError'}

SPECS = [
    dict(name='reduce', params=[('f', F2), ('x', LE), ('initial', OE)], ret=E, extra=[],
         loop_fuels=['x.length'], call_fuel=None),
    dict(name='accumulate', params=[('x', LE), ('f', F2), ('initial', OE), ('method', OS)], ret=LE,
         extra=[('no_prss', B)], loop_fuels=[], call_fuel='x.length + 1'),
]
ORDER = [s['name'] for s in SPECS]


def lty(t):
    if isinstance(t, tuple) and t[0] == 'FN':
        return 'Nat → ' + ' → '.join([LTY[s] for s in t[2]] + ['Int'] * t[1]) + \
            ' → Except TErr (' + ' × '.join(LTY[s] for s in t[2]) + ')'
    return LTY[t]


class Local:
    """a lambda-lifted nested function"""

    def __init__(self, lean, nparams, state, captured):
        self.lean, self.nparams, self.state, self.captured = lean, nparams, state, captured


class TFn:
    def __init__(self, spec, node):
        self.spec, self.node = spec, node
        self.fresh = 0
        self.lifted = []          # texts of lifted local functions
        self.nlocal = 0
        self.loop_idx = 0

    def newvar(self, base='v'):
        self.fresh += 1
        return f'{base}{self.fresh}'

    # ---------------------------------------------------------------------------------------------- expressions
    def ex(self, node, env, pre):
        """-> (lean, type); `pre` collects, in evaluation order, binders ('get', var, list, index)"""
        if isinstance(node, ast.Constant):
            v = node.value
            if isinstance(v, bool):
                return ('true' if v else 'false'), B
            if isinstance(v, int):
                return (str(v) if v >= 0 else f'({v})'), I
            if isinstance(v, str):
                if '"' in v or '\\' in v:
                    raise Unsupported('string literal with quote/backslash')
                return f'"{v}"', S
            raise Unsupported(f'constant {v!r}')
        if isinstance(node, ast.Name):
            if node.id not in env:
                raise Unsupported(f'name {node.id} is not bound here (line {node.lineno})')
            return env[node.id][0], env[node.id][1]
        if isinstance(node, ast.Attribute):
            if ast.unparse(node) == 'runtime.options.no_prss' and 'no_prss' in dict(self.spec['extra']):
                return 'no_prss', B
            raise Unsupported(f'attribute {ast.unparse(node)}')
        if isinstance(node, ast.BinOp):
            a, ta = self.ex(node.left, env, pre)
            b, tb = self.ex(node.right, env, pre)
            if ta != I or tb != I:
                raise Unsupported(f'arithmetic on {ta}, {tb} (line {node.lineno})')
            if isinstance(node.op, (ast.Add, ast.Sub, ast.Mult)):
                op = {ast.Add: '+', ast.Sub: '-', ast.Mult: '*'}[type(node.op)]
                return f'({a} {op} {b})', I
            if isinstance(node.op, (ast.FloorDiv, ast.Mod)):
                if not (isinstance(node.right, ast.Constant) and isinstance(node.right.value, int)
                        and not isinstance(node.right.value, bool) and node.right.value > 0):
                    raise Unsupported('// or % by something that is not a positive literal')
                return f'({a} {"/" if isinstance(node.op, ast.FloorDiv) else "%"} {b})', I
            raise Unsupported(f'operator {type(node.op).__name__}')
        if isinstance(node, ast.UnaryOp) and isinstance(node.op, ast.USub):
            a, ta = self.ex(node.operand, env, pre)
            if ta != I:
                raise Unsupported('unary minus on a non-int')
            return f'(-{a})', I
        if isinstance(node, ast.UnaryOp) and isinstance(node.op, ast.Not):
            return f'(!{self.truth(node.operand, env, pre)})', B
        if isinstance(node, ast.BoolOp):
            parts = [self.truth(v, env, pre) for v in node.values]
            if len(pre) and any(not isinstance(v, (ast.Name, ast.Attribute, ast.Compare, ast.Constant)) for v in node.values):
                raise Unsupported('and/or with operands that may raise (short-circuit evaluation)')
            return '(' + (' && ' if isinstance(node.op, ast.And) else ' || ').join(parts) + ')', B
        if isinstance(node, ast.Compare):
            return f'decide ({self.prop(node, env, pre)})', B
        if isinstance(node, ast.IfExp):
            n0 = len(pre)
            c = self.cond(node.test, env, pre)
            a, ta = self.ex(node.body, env, pre)
            b, tb = self.ex(node.orelse, env, pre)
            if len(pre) != n0:
                raise Unsupported('conditional expression with parts that may raise')
            if ta != tb:
                raise Unsupported(f'conditional expression of types {ta} / {tb}')
            return f'(if {c} then {a} else {b})', ta
        if isinstance(node, ast.Subscript):
            l, tl = self.ex(node.value, env, pre)
            if tl != LE:
                raise Unsupported(f'subscript of a value of type {tl}')
            if isinstance(node.slice, ast.Slice):
                lo, hi = self.bounds(node.slice, env, pre)
                return f'(pySlice {l} {lo} {hi})', LE
            i, ti = self.ex(node.slice, env, pre)
            if ti != I:
                raise Unsupported('index that is not an int')
            v = self.newvar()
            pre.append(('get', v, l, i))
            return v, E
        if isinstance(node, ast.Call):
            return self.call(node, env, pre)
        if isinstance(node, (ast.GeneratorExp, ast.ListComp)):
            return self.comp(node, env, pre)
        raise Unsupported(f'expression {type(node).__name__} (line {getattr(node, "lineno", "?")})')

    def bounds(self, sl, env, pre):
        if sl.step is not None:
            raise Unsupported('slice with a step')
        out = []
        for b in (sl.lower, sl.upper):
            if b is None:
                out.append('none')
            else:
                e, t = self.ex(b, env, pre)
                if t != I:
                    raise Unsupported('slice bound that is not an int')
                out.append(f'(some {e})')
        return out

    def call(self, node, env, pre):
        if node.keywords:
            raise Unsupported('keyword arguments')
        if isinstance(node.func, ast.Name):
            fn = node.func.id
            if fn in env and env[fn][1] == F2:
                if len(node.args) != 2:
                    raise Unsupported('f called with a number of arguments other than 2')
                a, ta = self.ex(node.args[0], env, pre)
                b, tb = self.ex(node.args[1], env, pre)
                if ta != E or tb != E:
                    raise Unsupported(f'f applied to arguments of types {ta}, {tb}')
                return f'({env[fn][0]} {a} {b})', E
            if fn == 'len' and len(node.args) == 1:
                l, tl = self.ex(node.args[0], env, pre)
                if tl != LE:
                    raise Unsupported('len of a non-list')
                return f'({l}.length : Int)', I
            if fn in ('list', 'iter') and len(node.args) == 1:
                l, tl = self.ex(node.args[0], env, pre)
                if tl != LE:
                    raise Unsupported(f'{fn}() of a non-list')
                return (f'(pyList {l})' if fn == 'list' else l), LE
        raise Unsupported(f'call {ast.unparse(node.func)} (line {node.lineno})')

    def comp(self, node, env, pre):
        if len(node.generators) != 1 or node.generators[0].ifs or node.generators[0].is_async:
            raise Unsupported('comprehension with several generators / filters')
        g = node.generators[0]
        if not isinstance(g.target, ast.Name):
            raise Unsupported('comprehension target that is not a name')
        it = g.iter
        if isinstance(it, ast.Call) and isinstance(it.func, ast.Name) and it.func.id == 'range' and not it.keywords:
            args = [self.ex(a, env, pre) for a in it.args]
            if any(t != I for _, t in args) or not 1 <= len(args) <= 3:
                raise Unsupported('range() arguments')
            if len(args) == 3:
                st = it.args[2]
                if not (isinstance(st, ast.Constant) and isinstance(st.value, int) and st.value > 0):
                    raise Unsupported('range() with a step that is not a positive literal')
            a = [x for x, _ in args]
            lo, hi, step = ('0', a[0], '1') if len(a) == 1 else (a[0], a[1], '1') if len(a) == 2 else a
            src, tv = f'(pyRangeStep {lo} {hi} {step})', I
        else:
            src, ts = self.ex(it, env, pre)
            if ts != LE:
                raise Unsupported('comprehension over something that is neither range() nor a list')
            tv = E
        v = lname(g.target.id)
        env2 = dict(env)
        env2[g.target.id] = (v, tv)
        pre2 = []
        e, te = self.ex(node.elt, env2, pre2)
        if te != E:
            raise Unsupported(f'comprehension element of type {te}')
        if not pre2:
            return f'(List.map (fun {v} => {e}) {src})', LE
        r = self.newvar()
        body = self.wrap(pre2, f'.ok {e}')
        pre.append(('mapm', r, src, v, body))
        return r, LE

    def prop(self, node, env, pre):
        """a comparison as a decidable Prop"""
        if len(node.ops) != 1:
            raise Unsupported('chained comparison')
        op = node.ops[0]
        a, ta = self.ex(node.left, env, pre)
        b, tb = self.ex(node.comparators[0], env, pre)
        if ta != tb or ta not in (I, S, B):
            raise Unsupported(f'comparison of {ta} with {tb} (line {node.lineno})')
        if ta != I and not isinstance(op, (ast.Eq, ast.NotEq)):
            raise Unsupported('ordering of non-ints')
        sym = {ast.Lt: '<', ast.LtE: '≤', ast.Gt: '>', ast.GtE: '≥', ast.Eq: '=', ast.NotEq: '≠'}.get(type(op))
        if sym is None:
            raise Unsupported(f'comparison operator {type(op).__name__}')
        return f'{a} {sym} {b}'

    def truth(self, node, env, pre):
        """Python truth value of an expression as a Lean Bool"""
        if isinstance(node, ast.Compare):
            return f'decide ({self.prop(node, env, pre)})'
        e, t = self.ex(node, env, pre)
        if t == B:
            return e
        if t == I:
            return f'decide ({e} ≠ 0)'
        if t == LE:
            return f'(!{e}.isEmpty)'
        raise Unsupported(f'truth value of a value of type {t}')

    def cond(self, node, env, pre):
        """condition of an `if` / `while` / conditional expression, as something `if _ then` accepts"""
        if isinstance(node, ast.Compare):
            return self.prop(node, env, pre)
        if isinstance(node, ast.UnaryOp) and isinstance(node.op, ast.Not):
            e, t = self.ex(node.operand, env, pre)
            if t == LE:
                return f'{e}.isEmpty'
            if t == I:
                return f'{e} = 0'
        e, t = self.ex(node, env, pre)
        if t == I:
            return f'{e} ≠ 0'
        if t == LE:
            return f'¬ {e}.isEmpty'
        if t == B:
            return f'{e} = true'
        raise Unsupported(f'condition of type {t}')

    @staticmethod
    def wrap(pre, body):
        for b in reversed(pre):
            if b[0] == 'get':
                _, v, l, i = b
                body = f'match pyGet? {l} {i} with\n| none => .error .indexError\n| some {v} =>\n{ind(body, 2)}'
            elif b[0] == 'mapm':
                _, r, src, v, eb = b
                body = (f'match pyMapM {src} (fun {v} =>\n{ind(eb, 4)}) with\n| .error exc_ => .error exc_\n'
                        f'| .ok {r} =>\n{ind(body, 2)}')
            else:
                raise Unsupported('internal: binder')
        return body

    # ---------------------------------------------------------------------------------------------- statements
    def assigned(self, stmts, env):
        """names (re)bound or mutated by the statements, in first-occurrence order"""
        out = []

        def add(n):
            if n not in out:
                out.append(n)
        for s in stmts:
            if isinstance(s, ast.Assign):
                for t in s.targets:
                    if isinstance(t, ast.Name):
                        add(t.id)
                    elif isinstance(t, ast.Subscript) and isinstance(t.value, ast.Name):
                        add(t.value.id)
                    else:
                        raise Unsupported(f'assignment target {ast.unparse(t)}')
            elif isinstance(s, ast.FunctionDef):
                add(s.name)
            elif isinstance(s, ast.Expr) and isinstance(s.value, ast.Call):
                c = s.value
                if isinstance(c.func, ast.Attribute) and isinstance(c.func.value, ast.Name):
                    add(c.func.value.id)
                elif isinstance(c.func, ast.Name) and c.func.id in env and isinstance(env[c.func.id][1], tuple):
                    for v in env[c.func.id][1][3]:
                        add(v)
                elif isinstance(c.func, ast.Name) and c.func.id == getattr(self, 'self_name', None):
                    for v in self.self_state:
                        add(v)
            elif isinstance(s, ast.If):
                for n in self.assigned(s.body, env) + self.assigned(s.orelse, env):
                    add(n)
            elif isinstance(s, ast.While):
                for n in self.assigned(s.body, env):
                    add(n)
            elif isinstance(s, (ast.Raise, ast.Return, ast.Pass)):
                pass
            elif isinstance(s, ast.Expr) and isinstance(s.value, ast.Constant):
                pass
            else:
                raise Unsupported(f'statement {type(s).__name__} (line {s.lineno})')
        return out

    @staticmethod
    def ends(stmts):
        """does the block always leave the function (raise / return)"""
        if not stmts:
            return False
        s = stmts[-1]
        if isinstance(s, (ast.Raise, ast.Return)):
            return True
        if isinstance(s, ast.If):
            return TFn.ends(s.body) and TFn.ends(s.orelse)
        return False

    def block(self, stmts, env, tail):
        """Lean term (type `Except TErr R`) for the statements followed by `tail(env)`"""
        if not stmts:
            return tail(env)
        s, rest = stmts[0], stmts[1:]
        if isinstance(s, ast.Expr) and isinstance(s.value, ast.Constant):
            return self.block(rest, env, tail)          # docstring
        if isinstance(s, ast.Pass):
            return self.block(rest, env, tail)
        if isinstance(s, ast.Return):
            if s.value is None:
                raise Unsupported('bare return')
            pre = []
            e, t = self.ex(s.value, env, pre)
            if t != self.ret:
                raise Unsupported(f'return of a value of type {t}, expected {self.ret}')
            return self.wrap(pre, f'.ok {e}')
        if isinstance(s, ast.Raise):
            exc = s.exc
            name = exc.func.id if isinstance(exc, ast.Call) and isinstance(exc.func, ast.Name) else \
                exc.id if isinstance(exc, ast.Name) else None
            if name not in ERRORS:
                raise Unsupported(f'raise {ast.unparse(exc) if exc else ""}')
            return f'.error {ERRORS[name]}'
        if isinstance(s, ast.Assign):
            return self.assign(s, rest, env, tail)
        if isinstance(s, ast.Expr) and isinstance(s.value, ast.Call):
            return self.call_stmt(s.value, rest, env, tail)
        if isinstance(s, ast.If):
            return self.if_stmt(s, rest, env, tail)
        if isinstance(s, ast.While):
            return self.while_stmt(s, rest, env, tail)
        if isinstance(s, ast.FunctionDef):
            return self.local_def(s, rest, env, tail)
        raise Unsupported(f'statement {type(s).__name__} (line {s.lineno})')

    def assign(self, s, rest, env, tail):
        if len(s.targets) != 1:
            raise Unsupported('chained assignment')
        t = s.targets[0]
        pre = []
        if isinstance(t, ast.Name):
            e, ty = self.ex(s.value, env, pre)
            if ty == F2 or isinstance(ty, tuple):
                raise Unsupported('assignment of a function')
            v = lname(t.id)
            env2 = dict(env)
            env2[t.id] = (v, ty)
            return self.wrap(pre, f'let {v} := {e}\n' + self.block(rest, env2, tail))
        if isinstance(t, ast.Subscript) and isinstance(t.value, ast.Name):
            base = t.value.id
            if base not in env or env[base][1] != LE:
                raise Unsupported(f'subscript assignment to {base}')
            l = env[base][0]
            env2 = dict(env)
            env2[base] = (lname(base), LE)
            if isinstance(t.slice, ast.Slice):
                # CPython: evaluates the right-hand side (materialising an iterator) first, then the bounds
                e, ty = self.ex(s.value, env, pre)
                if ty != LE:
                    raise Unsupported('slice assignment of a non-list')
                lo, hi = self.bounds(t.slice, env, pre)
                return self.wrap(pre, f'let {lname(base)} := pySliceSet {l} {lo} {hi} {e}\n' + self.block(rest, env2, tail))
            e, ty = self.ex(s.value, env, pre)
            if ty != E:
                raise Unsupported(f'item assignment of a value of type {ty}')
            i, ti = self.ex(t.slice, env, pre)
            if ti != I:
                raise Unsupported('index that is not an int')
            body = (f'match pySet? {l} {i} {e} with\n| none => .error .indexError\n| some {lname(base)} =>\n'
                    + ind(self.block(rest, env2, tail), 2))
            return self.wrap(pre, body)
        raise Unsupported(f'assignment target {ast.unparse(t)}')

    def call_stmt(self, c, rest, env, tail):
        if c.keywords:
            raise Unsupported('keyword arguments')
        pre = []
        if isinstance(c.func, ast.Attribute) and isinstance(c.func.value, ast.Name):
            base, meth = c.func.value.id, c.func.attr
            if base not in env or env[base][1] != LE:
                raise Unsupported(f'method call on {base}')
            l = env[base][0]
            env2 = dict(env)
            env2[base] = (lname(base), LE)
            if meth == 'insert' and len(c.args) == 2:
                i, ti = self.ex(c.args[0], env, pre)
                e, te = self.ex(c.args[1], env, pre)
                if ti != I or te != E:
                    raise Unsupported('insert() arguments')
                return self.wrap(pre, f'let {lname(base)} := pyInsert {l} {i} {e}\n' + self.block(rest, env2, tail))
            if meth == 'append' and len(c.args) == 1:
                e, te = self.ex(c.args[0], env, pre)
                if te != E:
                    raise Unsupported('append() argument')
                return self.wrap(pre, f'let {lname(base)} := {l} ++ [{e}]\n' + self.block(rest, env2, tail))
            raise Unsupported(f'method {meth}')
        if isinstance(c.func, ast.Name):
            fn = c.func.id
            if fn == getattr(self, 'self_name', None):
                callee, nparams, state, fuel = self.self_lean, self.self_nparams, self.self_state, 'fuel'
            elif fn in env and isinstance(env[fn][1], tuple):
                _, nparams, _, state = env[fn][1]
                callee, fuel = env[fn][0], f'({self.spec["call_fuel"]}).toNat' if False else None
                fuel = self.call_fuel(env)
            else:
                raise Unsupported(f'call of {fn} as a statement')
            if len(c.args) != nparams:
                raise Unsupported(f'{fn} called with {len(c.args)} arguments')
            args = []
            for a in c.args:
                e, te = self.ex(a, env, pre)
                if te != I:
                    raise Unsupported(f'argument of {fn} that is not an int')
                args.append(e)
            for v in state:
                if v not in env or env[v][1] != LE:
                    raise Unsupported(f'state variable {v} of {fn} is not a list here')
            env2 = dict(env)
            for v in state:
                env2[v] = (lname(v), LE)
            call = ' '.join([callee, fuel] + [env[v][0] for v in state] + args)
            body = (f'match {call} with\n| .error exc_ => .error exc_\n| .ok {tuple_pat([lname(v) for v in state])} =>\n'
                    + ind(self.block(rest, env2, tail), 2))
            return self.wrap(pre, body)
        raise Unsupported(f'call statement {ast.unparse(c.func)}')

    def call_fuel(self, env):
        fu = self.spec['call_fuel']
        if fu is None:
            raise Unsupported('no fuel annotation for calls of local functions')
        for v in ('x',):
            if v in fu and (v not in env or env[v][0] != v):
                raise Unsupported('fuel annotation refers to a variable that is not in scope')
        return f'({fu})'

    def option_test(self, test, env):
        """`v is not _no_value`, `v is None`, ... on an Option-typed variable -> (name, branch taken when present?)"""
        if (isinstance(test, ast.Compare) and len(test.ops) == 1 and isinstance(test.left, ast.Name)
                and isinstance(test.ops[0], (ast.Is, ast.IsNot)) and test.left.id in env
                and env[test.left.id][1] in (OE, OS)):
            c = test.comparators[0]
            ty = env[test.left.id][1]
            sentinel = (isinstance(c, ast.Name) and c.id == '_no_value' and ty == OE) or \
                       (isinstance(c, ast.Constant) and c.value is None and ty == OS)
            if not sentinel:
                raise Unsupported(f'identity test against {ast.unparse(c)}')
            return test.left.id, isinstance(test.ops[0], ast.IsNot)
        return None

    def if_stmt(self, s, rest, env, tail):
        opt = self.option_test(s.test, env)
        last = not rest
        if opt:
            name, present_is_body = opt
            inner = self.newvar(lname(name) + '_v')
            envp = dict(env)
            envp[name] = (inner, E if env[name][1] == OE else S)
            bodies = (s.body, s.orelse) if present_is_body else (s.orelse, s.body)
            envs = (envp, env)          # present, absent
        if last or (self.ends(s.body) and self.ends(s.orelse)):
            if opt:
                return (f'match {env[name][0]} with\n| some {inner} =>\n{ind(self.block(bodies[0], envp, tail), 2)}\n'
                        f'| none =>\n{ind(self.block(bodies[1], env, tail), 2)}')
            pre = []
            c = self.cond(s.test, env, pre)
            return self.wrap(pre, f'if {c} then\n{ind(self.block(s.body, env, tail), 2)}\nelse\n'
                                  f'{ind(self.block(s.orelse, env, tail), 2)}')
        # `if c: raise ...` followed by more statements
        if not opt and self.ends(s.body) and not s.orelse:
            pre = []
            c = self.cond(s.test, env, pre)
            return self.wrap(pre, f'if {c} then\n{ind(self.block(s.body, env, tail), 2)}\nelse\n'
                                  f'{ind(self.block(rest, env, tail), 2)}')
        # join: the if statement becomes an expression returning the variables it (re)binds
        branches = [(s.body, envp if opt and present_is_body else env), (s.orelse, envp if opt and not present_is_body else env)]
        names = self.assigned(s.body, env) + [n for n in self.assigned(s.orelse, env)]
        names = list(dict.fromkeys(names))
        live = [b for b, _ in branches if not self.ends(b)]
        join = [n for n in names if n in env or all(n in self.assigned(b, env) for b in live)]
        if not join:
            raise Unsupported('if statement without effect on later statements')
        types = {}

        def jtail(e2):
            for n in join:
                if n not in e2:
                    raise Unsupported(f'{n} is not bound in every branch')
                t = e2[n][1]
                if types.setdefault(n, t) != t:
                    raise Unsupported(f'{n} has different types in the branches')
            return '.ok ' + tuple_pat([e2[n][0] for n in join])
        if opt:
            tb = self.block(bodies[0], envp, jtail)
            eb = self.block(bodies[1], env, jtail)
            head = (f'match {env[name][0]} with\n    | some {inner} =>\n{ind(tb, 6)}\n    | none =>\n{ind(eb, 6)}')
        else:
            pre = []
            c = self.cond(s.test, env, pre)
            if pre:
                raise Unsupported('condition that may raise in a joined if')
            tb = self.block(s.body, env, jtail)
            eb = self.block(s.orelse, env, jtail)
            head = f'if {c} then\n{ind(tb, 6)}\n    else\n{ind(eb, 6)}'
        env2 = dict(env)
        for n in join:
            env2[n] = (lname(n), types[n])
        ty = ' × '.join(lty(types[n]) for n in join)
        return (f'match (({head}) : Except TErr ({ty})) with\n| .error exc_ => .error exc_\n'
                f'| .ok {tuple_pat([lname(n) for n in join])} =>\n{ind(self.block(rest, env2, tail), 2)}')

    def while_stmt(self, s, rest, env, tail):
        if s.orelse:
            raise Unsupported('while/else')
        if self.loop_idx >= len(self.spec['loop_fuels']):
            raise Unsupported('no fuel annotation for this loop')
        fuel = self.spec['loop_fuels'][self.loop_idx]
        self.loop_idx += 1
        state = [n for n in self.assigned(s.body, env) if n in env]
        if not state:
            raise Unsupported('loop without loop-carried variables')
        for n in state:
            if isinstance(env[n][1], tuple) or env[n][1] == F2:
                raise Unsupported('loop-carried function')
        pat = tuple_pat([lname(n) for n in state])
        sty = ' × '.join(lty(env[n][1]) for n in state)
        env2 = dict(env)
        for n in state:
            env2[n] = (lname(n), env[n][1])
        pre = []
        c = self.cond(s.test, env2, pre)
        if pre:
            raise Unsupported('loop guard that may raise')

        def ltail(e2):
            for n in state:
                if e2[n][1] != env[n][1]:
                    raise Unsupported(f'{n} changes its type in the loop')
            return '.ok (.next ' + tuple_pat([e2[n][0] for n in state]) + ')'
        saved = self.ret
        self.ret = None                       # `return` inside a loop is not supported here
        try:
            body = self.block(s.body, env2, ltail)
        finally:
            self.ret = saved
        init = tuple_pat([env[n][0] for n in state])
        return (f'onLoop (loop (σ := {sty}) (ρ := Empty) TErr.fuel (fun st => match st with\n'
                f'    | {pat} =>\n      if {c} then\n{ind(body, 8)}\n      else\n        .ok (.brk {pat})) ({fuel}) {init})\n'
                f'  (fun r => nomatch r)\n  (fun st => match st with\n    | {pat} =>\n{ind(self.block(rest, env2, tail), 6)})')

    def local_def(self, s, rest, env, tail):
        a = s.args
        if a.vararg or a.kwarg or a.kwonlyargs or a.defaults or a.posonlyargs or s.decorator_list:
            raise Unsupported('nested function with a non-trivial signature')
        params = [p.arg for p in a.args]
        self.nlocal += 1
        lean = f'{self.spec["name"]}.{s.name}_{self.nlocal}'
        # free variables of the body
        bound = set(params)
        for n in ast.walk(s):
            if isinstance(n, ast.Name) and isinstance(n.ctx, ast.Store):
                bound.add(n.id)
            if isinstance(n, (ast.Global, ast.Nonlocal, ast.Lambda)) or (isinstance(n, ast.FunctionDef) and n is not s):
                raise Unsupported('global/nonlocal/lambda/nested def inside a nested function')
        free = []
        for n in ast.walk(s):
            if isinstance(n, ast.Name) and n.id not in bound and n.id != s.name and n.id in env and n.id not in free:
                free.append(n.id)
        mutated = []
        for n in ast.walk(s):
            tgt = None
            if isinstance(n, ast.Assign):
                for t in n.targets:
                    if isinstance(t, ast.Subscript) and isinstance(t.value, ast.Name):
                        tgt = t.value.id
                        if tgt in free and tgt not in mutated:
                            mutated.append(tgt)
            if isinstance(n, ast.Call) and isinstance(n.func, ast.Attribute) and isinstance(n.func.value, ast.Name):
                tgt = n.func.value.id
                if tgt in free and tgt not in mutated:
                    mutated.append(tgt)
        if not mutated:
            raise Unsupported('nested function that mutates no list of the enclosing function')
        for v in mutated:
            if env[v][1] != LE:
                raise Unsupported(f'nested function mutates {v}, which is not a list')
        captured = [v for v in free if v not in mutated and env[v][1] != F2]
        for v in captured:
            if isinstance(env[v][1], tuple):
                raise Unsupported('nested function capturing a function variable')
        fpar = [v for v in free if env[v][1] == F2]
        # translate the body
        sub = TFn(self.spec, s)
        sub.ret = None
        sub.self_name, sub.self_lean = s.name, ' '.join([lean] + [lname(v) for v in fpar + captured])
        sub.self_nparams, sub.self_state = len(params), mutated
        sub.fresh = 0
        env_l = {v: (lname(v), env[v][1]) for v in free}
        for p in params:
            env_l[p] = (lname(p), I)

        def ltail(e2):
            return '.ok ' + tuple_pat([e2[v][0] for v in mutated])
        body = sub.block(s.body, env_l, ltail)
        if sub.lifted:
            raise Unsupported('nested function inside a nested function')
        binders = ''.join(f' ({lname(v)} : α → α → α)' for v in fpar) + ''.join(f' ({lname(v)} : {lty(env[v][1])})' for v in captured)
        fty = ('FN', len(params), tuple(LE for _ in mutated), tuple(mutated))
        sig = 'Nat → ' + ' → '.join(['List α'] * len(mutated) + ['Int'] * len(params)) + \
            ' → Except TErr (' + ' × '.join('List α' for _ in mutated) + ')'
        us = ', '.join(['_'] * (len(mutated) + len(params)))
        pat = ', '.join([lname(v) for v in mutated] + [lname(p) for p in params])
        self.lifted.append(f'-- ≙ mpctools.py:{s.lineno} nested `{s.name}` of `{self.spec["name"]}`\n'
                           f'def {lean} {{α : Type}}{binders} : {sig}\n  | 0, {us} => .error .fuel\n'
                           f'  | fuel + 1, {pat} =>\n{ind(body, 4)}\n')
        env2 = dict(env)
        env2[s.name] = ('(' + ' '.join([lean] + [env[v][0] for v in fpar + captured]) + ')',
                        ('FN', len(params), tuple(LE for _ in mutated), tuple(mutated)))
        return self.block(rest, env2, tail)

    def translate(self):
        spec, node = self.spec, self.node
        a = node.args
        if a.vararg or a.kwarg or a.kwonlyargs or a.posonlyargs:
            raise Unsupported('signature')
        if [p.arg for p in a.args] != [p for p, _ in spec['params']]:
            raise Unsupported(f'parameters {[p.arg for p in a.args]} differ from the annotated signature')
        ndef = len(a.defaults)
        for (p, t), d in zip(spec['params'][len(spec['params']) - ndef:], a.defaults):
            ok = (t == OE and isinstance(d, ast.Name) and d.id == '_no_value') or \
                 (t == OS and isinstance(d, ast.Constant) and d.value is None) or \
                 (t == F2 and ast.unparse(d) == 'operator.add')
            if not ok:
                raise Unsupported(f'default value of {p}: {ast.unparse(d)}')
        for (p, t) in spec['params'][:len(spec['params']) - ndef]:
            if t in (OE, OS):
                raise Unsupported(f'{p} has no default value any more')
        env = {p: (lname(p), t) for p, t in spec['params']}
        self.ret = spec['ret']

        def tail(_env):
            raise Unsupported('function may end without a return')
        body = self.block(node.body, env, tail)
        order = [p for p, t in spec['params'] if t == F2] + [p for p, _ in spec['extra']] + \
                [p for p, t in spec['params'] if t != F2]
        tys = dict(spec['params'] + spec['extra'])
        binders = ' '.join(f'({lname(p)} : {"α → α → α" if tys[p] == F2 else lty(tys[p])})' for p in order)
        head = f'def {spec["name"]} {{α : Type}} {binders} : Except TErr ({lty(spec["ret"])}) :=\n'
        return '\n'.join(self.lifted) + ('\n' if self.lifted else '') + \
            f'-- ≙ mpctools.py:{node.lineno} `{spec["name"]}`\n' + head + ind(body, 2) + '\n'


HEADER = '''/- GENERATED by harness/py2lean_tools.py from {src} — do not edit.
mpctools.reduce / mpctools.accumulate translated statement by statement, polymorphic in the element type, the binary
operation `f` a parameter (rules: see the docstring of harness/py2lean_tools.py). -/
import MpycV.Model.PyTools
namespace MpycV.MpctoolsSrc
open MpycV.PyLoop MpycV.PyTools
set_option linter.unusedVariables false

'''


def translate_source(text, srcname='mpyc/mpctools.py'):
    """-> (lean file text, {function: error message} for the functions that could not be translated)"""
    out = [HEADER.format(src=srcname)]
    problems = {}
    found = {}
    try:
        tree = ast.parse(text)
        for node in tree.body:
            if isinstance(node, ast.FunctionDef):
                found.setdefault(node.name, []).append(node)
    except SyntaxError as exc:
        problems['*'] = f'syntax error: {exc}'
    for spec in SPECS:
        name = spec['name']
        try:
            if name not in found:
                raise Unsupported('function not found in the source')
            if len(found[name]) != 1:
                raise Unsupported(f'{len(found[name])} definitions found')
            out.append(TFn(spec, found[name][0]).translate())
        except Unsupported as exc:
            problems[name] = str(exc)
        except RecursionError:
            problems[name] = 'translator recursion limit'
        except Exception as exc:   # never crash the checker
            problems[name] = f'translator error {type(exc).__name__}: {exc}'
        if name in problems:
            msg = problems[name].replace('"', "'").replace('\\', '/')
            out.append(f'/-- NOT TRANSLATED: {msg} -/\ndef {name}.untranslated : String := "py2lean_tools: {name}: {msg}"\n')
    out.append('end MpycV.MpctoolsSrc\n')
    return '\n'.join(out), problems


def main():
    import repo_path
    src = os.path.join(repo_path.REPO, 'mpyc', 'mpctools.py')
    text, problems = translate_source(open(src).read())
    dst = sys.argv[1] if len(sys.argv) > 1 else os.path.join(os.path.dirname(HERE), 'lean', 'MpycV', 'Generated',
                                                               'MpctoolsSrc.lean')
    old = open(dst).read() if os.path.exists(dst) else None
    if old != text:
        tmp = dst + f'.tmp{os.getpid()}'
        with open(tmp, 'w') as f:
            f.write(text)
        os.replace(tmp, dst)
    for k, v in problems.items():
        print(f'py2lean_tools: {k}: {v}')
    return 0


if __name__ == '__main__':
    sys.exit(main())
