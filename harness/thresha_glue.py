"""Glue shared by the thresha checks (C12, C13, C15, C17): real mpyc fields next to the independent oracle
field and the Lean driver's field selection line; canonical encodings; patched dealer randomness."""
import os
import sys

sys.path.insert(0, os.path.dirname(os.path.abspath(__file__)))
import simnet  # noqa: E402,F401  (sets argv for mpyc, appends .deps, patches thresha.secrets = SECRETS)
from simnet import SECRETS  # noqa: E402
from mpyc import thresha, finfields, gfpx  # noqa: E402
import thresha_oracle as orc  # noqa: E402

try:
    import numpy as np  # noqa: E402
except ImportError:  # pragma: no cover
    np = None

P64 = 2**64 - 59
P128 = 2**128 - 159


class Fld:
    """A field in three guises: mpyc class, oracle OField, Lean driver selection line (or None)."""

    def __init__(self, p, d=1, lean_tables=True, modulus=None):
        self.p, self.d = p, d
        if d == 1:
            self.field = finfields.GF(p)
            self.of = orc.OField(p)
            self.lean = f'field p {p}'
            self.name = f'GF({p})' if p < 2**20 else f'GF(~2^{p.bit_length()})'
            self.modulus_int = None
        else:
            mod = finfields.find_irreducible(p, d)
            if modulus is not None and int(modulus) != int(mod):   # a second field of the same order
                from mpyc import gfpx as _gfpx
                mod = _gfpx.GFpX(p)(int(modulus))
                assert mod.degree() == d and _gfpx.GFpX(p).is_irreducible(mod)
                self.alt = True
            self.field = finfields.GF(mod)
            self.modulus_int = int(mod)
            self.of = orc.OField(p, self.modulus_int)
            self.name = f'GF({p}^{d})' + (f' mod {int(mod)}' if getattr(self, 'alt', False) else '')
            if lean_tables and self.of.q <= 32:
                a, m = self.of.tables()
                self.lean = f'field T {self.of.q} ' + ','.join(map(str, a)) + ' ' + ','.join(map(str, m))
            else:
                self.lean = None
        self.q = self.of.q
        assert self.field.order == self.q

    def desc(self):
        return {'p': self.p, 'd': self.d, 'modulus': self.modulus_int}

    @staticmethod
    def from_desc(dsc):
        return Fld(int(dsc['p']), int(dsc['d']), modulus=dsc.get('modulus') if int(dsc['d']) > 1 else None)

    def canon(self, y):
        """integer encoding of the field element denoted by y (int, gfpx polynomial or field element)"""
        f = self.field
        if isinstance(y, f):
            return int(y.value)
        if np is not None and isinstance(y, np.generic):
            y = y.item()
        return int(f(y).value)

    def canon_list(self, ys):
        if np is not None and hasattr(ys, 'value') and not isinstance(ys, self.field):
            ys = ys.value  # field array
        if np is not None and isinstance(ys, np.ndarray):
            ys = ys.ravel().tolist()
        return [self.canon(y) for y in ys]

    def canon_matrix(self, rows):
        if np is not None and hasattr(rows, 'value') and not isinstance(rows, (list, tuple)):
            rows = rows.value
        return [self.canon_list(list(r)) for r in rows]


def show_list(xs):
    return ','.join(str(x) for x in xs) if len(xs) else '-'


def show_matrix(rows):
    return ';'.join(show_list(r) for r in rows) if len(rows) else '[]'


class Dealer:
    """Context manager: feed `thresha.secrets.randbelow` from a fixed stream and record every call."""

    def __init__(self, stream=None, rng=None):
        self.stream = list(stream) if stream is not None else None
        self.rng = rng
        self.calls = []   # (kind, arg, value)
        self.pos = 0

    def _ov(self, pid, kind, arg):
        if kind != 'randbelow':
            return None
        if self.stream is not None:
            if self.pos >= len(self.stream):
                raise RuntimeError('dealer stream exhausted')
            v = self.stream[self.pos]
        else:
            v = self.rng.randrange(arg)
        self.pos += 1
        return v

    def __enter__(self):
        if not SECRETS.rngs:
            SECRETS.reseed(0, 1)
        self._old = (SECRETS.override, SECRETS.log)
        self.log = []
        SECRETS.override = self._ov
        SECRETS.log = self.log
        assert thresha.secrets is SECRETS
        return self

    def __exit__(self, *exc):
        SECRETS.override, SECRETS.log = self._old
        self.calls = [(k, a, v) for (_pid, k, a, v) in self.log]
        return False


def exc_name(fn, *args, **kw):
    """run fn; return ('ok', result) or ('err', exception class name)"""
    try:
        return 'ok', fn(*args, **kw)
    except Exception as exc:  # noqa: BLE001
        return 'err', type(exc).__name__
