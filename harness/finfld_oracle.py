"""Independent reference implementation of finite fields for the C20-C22 checks.

Written from the textbook definitions, NOT from mpyc.finfields / mpyc.gfpx / the Lean model:
  * GF(p): integers modulo p; inverse by Fermat (a^(p-2)), not by extended Euclid.
  * GF(p^d) = GF(p)[X]/(m): elements are tuples of d coefficients (constant term first);
    schoolbook multiplication followed by elimination of the high coefficients using
    X^d = -(m_0 + ... + m_{d-1} X^{d-1}) (m monic); inverse by a^(q-2) with plain square-and-multiply;
    for tiny fields additionally cross-checked by brute force.
  * squares: brute-force set {x*x} for small fields, Euler's criterion otherwise.
  * the only conventions taken from the library's documented interface: an int n >= 0 denotes the
    polynomial whose base-p digits are the coefficients; a negative int denotes the negated polynomial
    (for p = 2: the same polynomial); little-endian fixed-width byte encoding.
"""


class OField:
    def __init__(self, p, modulus=None):
        """modulus: coefficient list, constant term first, monic, degree d >= 1; None = prime field."""
        self.p = p
        if modulus is None:
            self.d = 1
            self.mod = None
        else:
            assert modulus[-1] == 1
            self.d = len(modulus) - 1
            self.mod = tuple(c % p for c in modulus)
        self.q = p ** self.d
        self.zero = (0,) * self.d
        self.one = (1,) + (0,) * (self.d - 1)
        self._squares = None

    # --- conversions ---------------------------------------------------------------------
    def digits(self, n):
        """base-p digits of n >= 0, constant term first (arbitrary length)"""
        out = []
        while n:
            n, r = divmod(n, self.p)
            out.append(r)
        return out

    def from_poly(self, coeffs):
        """reduce an arbitrary-length coefficient sequence modulo the modulus polynomial"""
        p, d = self.p, self.d
        c = [x % p for x in coeffs]
        if self.mod is None:
            # prime field: polynomial in "X = p"? not used; a prime-field element is just an int
            raise TypeError('from_poly on a prime field')
        while len(c) > d:
            top = c.pop()
            if top:
                k = len(c) - d   # top * X^(k+d) = -top * X^k * (m_0 + ... + m_{d-1} X^{d-1})
                for j in range(d):
                    c[k + j] = (c[k + j] - top * self.mod[j]) % p
        c += [0] * (d - len(c))
        return tuple(c)

    def from_int(self, n):
        if self.mod is None:
            return (n % self.p,)
        if n >= 0:
            return self.from_poly(self.digits(n))
        if self.p == 2:
            return self.from_poly(self.digits(-n))
        return self.neg(self.from_poly(self.digits(-n)))

    def to_int(self, a):
        return sum(c * self.p ** i for i, c in enumerate(a))

    def elements(self):
        for n in range(self.q):
            yield tuple(self.digits(n) + [0] * (self.d - len(self.digits(n))))

    # --- arithmetic ----------------------------------------------------------------------
    def add(self, a, b):
        return tuple((x + y) % self.p for x, y in zip(a, b))

    def neg(self, a):
        return tuple((-x) % self.p for x in a)

    def sub(self, a, b):
        return tuple((x - y) % self.p for x, y in zip(a, b))

    def mul(self, a, b):
        if self.mod is None:
            return ((a[0] * b[0]) % self.p,)
        c = [0] * (2 * self.d - 1)
        for i, x in enumerate(a):
            for j, y in enumerate(b):
                c[i + j] += x * y
        return self.from_poly(c)

    def npow(self, a, n):
        assert n >= 0
        r = self.one
        b = a
        while n:
            if n & 1:
                r = self.mul(r, b)
            b = self.mul(b, b)
            n >>= 1
        return r

    def inv(self, a):
        """None for zero"""
        if a == self.zero:
            return None
        r = self.npow(a, self.q - 2)
        assert self.mul(a, r) == self.one
        return r

    def div(self, a, b):
        i = self.inv(b)
        return None if i is None else self.mul(a, i)

    def pow(self, a, n):
        if n >= 0:
            return self.npow(a, n)
        i = self.inv(a)
        return None if i is None else self.npow(i, -n)

    def is_square(self, a):
        if self.q <= 4096:
            if self._squares is None:
                self._squares = {self.mul(x, x) for x in self.elements()}
            return a in self._squares
        if a == self.zero or self.p == 2:
            return True
        return self.npow(a, (self.q - 1) // 2) == self.one

    def two_pow(self, n):
        """the field element 2^n, i.e. (1+1)^n"""
        return self.npow(self.add(self.one, self.one), n)


def byte_length(q):
    """least r with 2^(8r) >= 2^bit_length(q), the documented width rule"""
    bits = len(bin(q)) - 2
    return -(-bits // 8)


def encode(values, r):
    out = bytearray()
    for v in values:
        for _ in range(r):
            out.append(v & 255)
            v >>= 8
        assert v == 0
    return bytes(out)


def decode(data, r):
    out = []
    for i in range(0, len(data), r):
        v = 0
        for k, b in enumerate(data[i:i + r]):
            v += b << (8 * k)
        out.append(v)
    return out
