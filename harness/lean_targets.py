"""Print the Lean build targets needed by the claimed checks: their LEAN_MODULES (minus PropsGen, which
depend on files generated at check time) and the model modules imported by the drivers."""
import os, re, glob
HERE = os.path.dirname(os.path.abspath(__file__))
claimed = [l.strip() for l in open(os.path.join(HERE, 'claimed.txt')) if l.strip() and not l.startswith('#')]
targets = []
for pid in claimed:
    fn = os.path.join(HERE, 'props', pid.lower() + '.py')
    if not os.path.exists(fn):
        continue
    src = open(fn).read()
    m = re.search(r'LEAN_MODULES\s*=\s*\[([^\]]*)\]', src)
    mods = re.findall(r"'([^']+)'", m.group(1)) if m else [f'MpycV.Props.{pid}']
    for mod in mods:
        if '.PropsGen.' not in mod and mod not in targets:
            targets.append(mod)
for drv in glob.glob(os.path.join(os.path.dirname(HERE), 'lean', 'Drv', '*.lean')):
    for mod in re.findall(r'^import (MpycV\.\S+)', open(drv).read(), re.M):
        if mod not in targets:
            targets.append(mod)
print(' '.join(targets))
