"""The C37 operation table (imported by arrays_ops).  Each @op function maps (rng, kind, force) to a plan:
  inputs   {name: plain ndarray}            shared with mpc.input(senders=0)
  call     (mpc, S, X) -> secure result     the array operation of the real code (sync part)
  ref      (P) -> plain expected             NumPy on the plain inputs
  scalar   (mpc, S, L) -> secure scalars     optional: same computation with secure scalars elementwise
  lean     (P, declared, plain) -> [(request, implementation answer)]   optional: lines for Drv/Arrays.lean
  tol / tol_scalar / check / check_scalar / expect_exc / finding_key / desc / key / tags
"""
import math
import numpy as np
import arrays_ops
from arrays_ops import (op, directed, rshape, bpair, rvals, arange_vals, modulus, to_np, same, shp, ints, opt, flat_ints,
                        ALLK, ORD, FLD, F, ULP)


def _pick(rng, force, options):
    c = rng.choice(options)
    return force if force in options else c


VARIANTS = {'f256_arith': ['add', 'mul', 'sum', 'reciprocal', 'div', 'is_zero_public'], 'np_transcendental': ['log', 'log2', 'log10', 'exp2', 'exp', 'pow_float', 'rpow2', 'rpow3'], 'np_xstack': ['vstack', 'hstack', 'dstack', 'column_stack', 'row_stack', 'block'], 'np_dims': ['expand_dims', 'squeeze', 'diag', 'diagflat'], 'np_flatten': ['flatten', 'tolist', 'copy', 'flat'], 'np_split': ['split', 'hsplit', 'vsplit', 'dsplit'], 'np_flip': ['flip', 'fliplr', 'flipud'], 'np_cumsum': ['cumsum', 'cumulative_sum'], 'np_trace': ['trace', 'diagonal'], 'np_argmin': ['argmin', 'argmax'], 'np_where': ['where', 'if_swap']}


def fmod(kind, a):
    """reduce an object-int array into the field (identity for int / fxp)"""
    p = modulus(kind)
    if p is None:
        return a
    return np.vectorize(lambda x: int(x) % p, otypes='O')(a) if np.size(a) else np.array(a, dtype=object)


def finv(kind, a):
    p = modulus(kind)
    return np.vectorize(lambda x: pow(int(x), -1, p), otypes='O')(a)


def vec(f, *arrs):
    """elementwise python function over broadcast object arrays"""
    bs = np.broadcast_arrays(*[np.asarray(a, dtype=object) if not (isinstance(a, np.ndarray) and a.dtype == float) else a
                               for a in arrs])
    out = np.empty(bs[0].shape, dtype=object)
    it = np.nditer(bs[0], flags=['multi_index', 'refs_ok', 'zerosize_ok'])
    for _ in it:
        i = it.multi_index
        out[i] = f(*[b[i] for b in bs])
    return out


def bvec(f, *arrs):
    """elementwise over broadcast object arrays of secure scalars -> object array"""
    bs = np.broadcast_arrays(*[a if isinstance(a, np.ndarray) else np.array(a, dtype=object) for a in arrs])
    out = np.empty(bs[0].shape, dtype=object)
    for i in np.ndindex(bs[0].shape):
        out[i] = f(*[b[i] for b in bs])
    return out


def fl(kind, a):
    """float array for fxp, object otherwise"""
    return a


# ---------------------------------------------------------------------------------------------
# input / output
# ---------------------------------------------------------------------------------------------
@op('input_output', ALLK + ['f256'])
def _io(rng, kind, force):
    s = rshape(rng)
    a = rvals(rng, kind, s, rng.choice(['small', 'wide']) if kind == 'int' else 'small')
    return {'inputs': {'a': a}, 'desc': f'mpc.output(mpc.input(stype.array(a{list(s)}), senders=0))', 'key': (s, a.tobytes() if a.dtype == float else tuple(a.reshape(-1))),
            'call': lambda mpc, S, X: X['a'], 'ref': lambda P: P['a'],
            'scalar': lambda mpc, S, L: L['a'], 'nontrivial': a.size > 1}


# ---------------------------------------------------------------------------------------------
# elementwise binary operations with broadcasting
# ---------------------------------------------------------------------------------------------
def _binary(name, kinds, sec_f, np_f, sc_f, mode='small', tol=0.0, rhs_variants=('sec', 'sec', 'pubarr', 'pubint', 'secscalar'),
            mode_b=None):
    @op(name, kinds)
    def plan(rng, kind, force):
        bad = rng.random() < 0.06
        sa, sb = bpair(rng, incompatible=bad)
        variant = rng.choice(rhs_variants)
        if kind != 'int' and kind != 'fxp' and variant == 'pubint' and name in ('np_less',):
            variant = 'sec'
        a = rvals(rng, kind, sa, mode)
        b = rvals(rng, kind, sb, mode_b or mode)
        if variant == 'pubint':
            b = rvals(rng, kind, (), mode_b or mode)
            if kind == 'fxp':
                b = np.array(float(round(float(b))) if float(b) != 0 or (mode_b or mode) not in ('nz', 'pos') else 1.0)
            sb = ()
            bad = False
        elif variant == 'secscalar':
            b = rvals(rng, kind, (), mode_b or mode)
            sb = ()
            bad = False
        inputs = {'a': a} if variant in ('pubarr', 'pubint') else {'a': a, 'b': b}
        pub = b

        def call(mpc, S, X):
            if variant == 'sec':
                return sec_f(mpc, X['a'], X['b'])
            if variant == 'secscalar':
                return sec_f(mpc, X['a'], mpc.np_getitem(X['b'], ()))
            if variant == 'pubarr':
                return sec_f(mpc, X['a'], pub if kind == 'fxp' else pub.astype(np.int64))
            return sec_f(mpc, X['a'], float(pub) if kind == 'fxp' else int(pub))

        def ref(P):
            return fmod(kind, np_f(kind, P['a'], pub))

        def scalar(mpc, S, L):
            if variant in ('sec', 'secscalar'):
                return bvec(lambda x, y: sc_f(mpc, x, y), L['a'], L['b'])
            pb = pub if kind == 'fxp' else np.vectorize(int, otypes='O')(pub) if pub.size else pub
            return bvec(lambda x, y: sc_f(mpc, x, float(y) if kind == 'fxp' else int(y)), L['a'], pb)

        def lean(P, decl, plain):
            out = []
            if isinstance(decl, tuple):
                out.append((f'bshape {shp(sa)} {shp(sb)}', shp(decl)))
            if kind == 'int' and name in ('np_add', 'np_subtract', 'np_multiply') and isinstance(decl, tuple):
                o = {'np_add': 'add', 'np_subtract': 'sub', 'np_multiply': 'mul'}[name]
                out.append((f'map2 {o} {shp(sa)} {ints(flat_ints(a))} {shp(sb)} {ints(flat_ints(pub))}',
                            f'{shp(to_np(plain).shape)}|{ints(flat_ints(plain))}'))
            return out
        pl = {'inputs': inputs, 'call': call, 'ref': ref, 'scalar': scalar, 'lean': lean, 'tol': tol,
              'desc': f'mpc.{name}(a{list(sa)}, b{list(sb)}:{variant})', 'key': (sa, sb, variant, str(a.tolist()), str(b.tolist())),
              'tags': [f'rhs:{variant}', 'broadcast' if sa != sb else 'same-shape'] + (['zero-size'] if a.size == 0 or b.size == 0 else []),
              'nontrivial': sa != () or sb != ()}
        if bad:
            pl['expect_exc'] = 'ValueError'
            pl['lean_exc'] = [(f'bshape {shp(sa)} {shp(sb)}', 'ValueError')]
            pl['scalar'] = None
            pl['tags'] = ['incompatible-shapes']
        return pl
    return plan


def _lt(kind, a, b):
    return vec(lambda x, y: int(x < y), a, b)


_binary('np_add', ALLK, lambda mpc, a, b: mpc.np_add(a, b) if not isinstance(b, (int, float, np.ndarray)) else a + b,
        lambda k, a, b: a + b, lambda mpc, x, y: x + y)
_binary('np_subtract', ALLK, lambda mpc, a, b: mpc.np_subtract(a, b) if not isinstance(b, (int, float, np.ndarray)) else a - b,
        lambda k, a, b: a - b, lambda mpc, x, y: x - y)
_binary('rsub', ALLK, lambda mpc, a, b: b - a, lambda k, a, b: b - a, lambda mpc, x, y: y - x,
        rhs_variants=('pubarr', 'pubint'))
_binary('np_multiply', ALLK, lambda mpc, a, b: mpc.np_multiply(a, b), lambda k, a, b: a * b, lambda mpc, x, y: x * y,
        tol=1.01 * ULP)
_binary('np_less', ORD, lambda mpc, a, b: mpc.np_less(a, b), _lt, lambda mpc, x, y: x < y,
        rhs_variants=('sec', 'sec', 'secscalar', 'pubint'))
_binary('op_le', ORD, lambda mpc, a, b: a <= b, lambda k, a, b: vec(lambda x, y: int(x <= y), a, b), lambda mpc, x, y: x <= y,
        rhs_variants=('sec', 'pubint'))
_binary('op_gt', ORD, lambda mpc, a, b: a > b, lambda k, a, b: vec(lambda x, y: int(x > y), a, b), lambda mpc, x, y: x > y,
        rhs_variants=('sec', 'pubint'))
_binary('op_ge', ORD, lambda mpc, a, b: a >= b, lambda k, a, b: vec(lambda x, y: int(x >= y), a, b), lambda mpc, x, y: x >= y,
        rhs_variants=('sec', 'pubint'))
_binary('np_equal', ALLK, lambda mpc, a, b: mpc.np_equal(a, b), lambda k, a, b: vec(lambda x, y: int(x == y), fmod(k, a), fmod(k, b)),
        lambda mpc, x, y: x == y, mode='tiny', rhs_variants=('sec', 'sec', 'secscalar'))
_binary('op_ne', ALLK, lambda mpc, a, b: a != b, lambda k, a, b: vec(lambda x, y: int(x != y), fmod(k, a), fmod(k, b)),
        lambda mpc, x, y: x != y, mode='tiny', rhs_variants=('sec', 'secscalar'))
_binary('np_minimum', ORD, lambda mpc, a, b: mpc.np_minimum(a, b), lambda k, a, b: vec(min, a, b), lambda mpc, x, y: mpc.min(x, y),
        rhs_variants=('sec',), tol=1.01 * ULP)
_binary('np_maximum', ORD, lambda mpc, a, b: mpc.np_maximum(a, b), lambda k, a, b: vec(max, a, b), lambda mpc, x, y: mpc.max(x, y),
        rhs_variants=('sec',), tol=1.01 * ULP)
_binary('np_divide', FLD, lambda mpc, a, b: mpc.np_divide(a, b), lambda k, a, b: a * finv(k, np.broadcast_to(b, np.shape(b))),
        lambda mpc, x, y: x / y, mode_b='nz', rhs_variants=('sec', 'sec', 'secscalar', 'pubint'))
_binary('np_divide_fxp', ['fxp'], lambda mpc, a, b: mpc.np_divide(a, b), lambda k, a, b: a / b,
        lambda mpc, x, y: x / y, mode_b='nz', rhs_variants=('sec', 'sec', 'pubint'), tol=0.004)
_binary('rdivide', FLD, lambda mpc, a, b: b / a, lambda k, a, b: b * finv(k, a), lambda mpc, x, y: y / x,
        mode='nz', rhs_variants=('pubint',))


# ---------------------------------------------------------------------------------------------
# elementwise unary operations
# ---------------------------------------------------------------------------------------------
def _unary(name, kinds, sec_f, np_f, sc_f, mode='small', tol=0.0, check=None, check_scalar=None, params=None, maxsize=24):
    @op(name, kinds)
    def plan(rng, kind, force):
        s = rshape(rng, 3, maxsize)
        par = params(rng, kind) if params else {}
        md = par.pop('_mode', mode)
        a = rvals(rng, kind, s, md)
        if force == 'f4' and kind == 'int':      # the original F4 reproducer: np_lsb(secint.array([3,4,-5,6])), m=3, no PRSS
            s, a = (4,), np.array([3, 4, -5, 6], dtype=object)
        return {'inputs': {'a': a}, 'call': lambda mpc, S, X: sec_f(mpc, X['a'], **par),
                'ref': lambda P: fmod(kind, np_f(kind, P['a'], **par)),
                'scalar': (lambda mpc, S, L: bvec(lambda x: sc_f(mpc, x, **par), L['a'])) if sc_f else None,
                'tol': tol, 'check': check, 'check_scalar': check_scalar,
                'desc': f'mpc.{name}(a{list(s)}, {par})', 'key': (s, str(a.tolist()), str(par)),
                'tags': ['zero-size'] if a.size == 0 else [], 'nontrivial': a.size > 1}
    return plan


def _sgn_np(kind, a, l=None, LT=False, EQ=False):
    if LT:
        return vec(lambda x: int(x < 0), a)
    if EQ:
        return vec(lambda x: int(x == 0), a)
    return vec(lambda x: int(x > 0) - int(x < 0), a)


def _sgn_params(rng, kind):
    r = rng.random()
    par = {}
    if r < 0.3:
        par['LT'] = True
    elif r < 0.6:
        par['EQ'] = True
    if rng.random() < 0.3:
        par['l'] = 10 + (F if kind == 'fxp' else 0)   # |a| <= 100 < 2^9
    return par


_unary('np_negative', ALLK, lambda mpc, a: mpc.np_negative(a), lambda k, a: -a, lambda mpc, x: -x)
_unary('np_absolute', ORD, lambda mpc, a: mpc.np_absolute(a), lambda k, a: vec(abs, a), lambda mpc, x: abs(x))
_unary('np_copy', ALLK, lambda mpc, a: mpc.np_copy(a), lambda k, a: a, None)
_unary('np_sgn', ORD, lambda mpc, a, **kw: mpc.np_sgn(a, **kw), _sgn_np, lambda mpc, x, **kw: mpc.sgn(x, **kw), params=_sgn_params)
# NB for secfxp, lsb() is the least significant bit of the RAW representation round(a * 2^f) (this is what Runtime.mod uses)
_unary('np_lsb', ['int', 'fxp'], lambda mpc, a: mpc.np_lsb(a),
       lambda k, a: vec(lambda x: int(round(x * 2**F)) % 2 if k == 'fxp' else int(x) % 2, a), lambda mpc, x: mpc.lsb(x),
       params=lambda rng, kind: {'_mode': 'raw'} if kind == 'fxp' else {})
_unary('np_reciprocal', FLD, lambda mpc, a: mpc.np_reciprocal(a), lambda k, a: finv(k, a), lambda mpc, x: mpc.reciprocal(x), mode='nz')
_unary('np_left_shift', ['int', 'fxp'], lambda mpc, a, b=1: mpc.np_left_shift(a, b), lambda k, a, b=1: a * 2**b, lambda mpc, x, b=1: x << b,
       params=lambda rng, kind: {'b': rng.randint(0, 6)})


def _trunc_check(f):
    def chk(got, exp):
        g, e = to_np(got), to_np(exp)
        if g.shape != e.shape:
            return f'shape {g.shape} expected {e.shape}'
        for x, y in zip(g.reshape(-1).tolist(), e.reshape(-1).tolist()):
            if not abs(float(x) - float(y)) <= 1.0:
                return f'trunc result {x} is not within 1 of a/2^f = {y}'
        return None
    return chk


@op('np_trunc', ['int'])
def _trunc(rng, kind, force):
    s = rshape(rng)
    f = rng.randint(1, 8)
    a = rvals(rng, kind, s, 'wide')
    return {'inputs': {'a': a}, 'call': lambda mpc, S, X: mpc.np_trunc(X['a'], f=f),
            'ref': lambda P: vec(lambda x: x / 2**f, P['a']), 'check': _trunc_check(f),
            'scalar': lambda mpc, S, L: bvec(lambda x: mpc.trunc(x, f=f), L['a']),
            'check_scalar': lambda got, sc: _trunc_check(f)(got, np.vectorize(float, otypes=[float])(to_np(sc)) if to_np(sc).size else to_np(sc)),
            'desc': f'mpc.np_trunc(a{list(s)}, f={f})', 'key': (s, f, str(a.tolist())), 'nontrivial': a.size > 1}


@op('np_trunc_fxp', ['fxp'])
def _trunc_fxp(rng, kind, force):
    # default f: drops the F fractional bits of the field representation: value v -> v / 2^F (a tiny fixed-point number)
    s = rshape(rng)
    a = rvals(rng, kind, s, 'small')
    return {'inputs': {'a': a}, 'call': lambda mpc, S, X: mpc.np_trunc(X['a']),
            'ref': lambda P: P['a'] / 2**F, 'tol': 1.01 * ULP,
            'scalar': lambda mpc, S, L: bvec(lambda x: mpc.trunc(x), L['a']), 'tol_scalar': 2.02 * ULP,
            'desc': f'mpc.np_trunc(a{list(s)})', 'key': (s, str(a.tolist())), 'nontrivial': a.size > 1}


@op('np_pow', ALLK)
def _pow(rng, kind, force):
    s = rshape(rng, 3, 12)
    if kind in FLD:
        b = rng.choice([0, 1, 2, 3, 5, 254, -1, -2, modulus(kind) - 1])
        a = rvals(rng, kind, s, 'nz' if b < 0 else 'small')
        ref = lambda P: vec(lambda x: pow(int(x), b, modulus(kind)), P['a'])
    elif kind == 'int':
        b = rng.choice([0, 1, 2, 3, 4])
        a = rvals(rng, kind, s, 'tiny') if b > 2 else rvals(rng, kind, s, 'small')
        ref = lambda P: vec(lambda x: int(x) ** b, P['a'])
    else:
        b = rng.choice([0, 1, 2, 3, 2.0])
        a = rvals(rng, kind, s, 'tiny')
        ref = lambda P: P['a'] ** int(b)
    return {'inputs': {'a': a}, 'call': lambda mpc, S, X: mpc.np_pow(X['a'], b), 'ref': ref, 'tol': 8 * ULP,
            'scalar': lambda mpc, S, L: bvec(lambda x: mpc.pow(x, int(b)), L['a']), 'tol_scalar': 16 * ULP,
            'desc': f'mpc.np_pow(a{list(s)}, {b})', 'key': (s, b, str(a.tolist())), 'nontrivial': a.size > 1}


@op('np_to_bits', ['int', 'fxp', 'f101'])
def _to_bits(rng, kind, force):
    s = rshape(rng, 2, 8)
    if kind == 'int':
        l = rng.choice([None, 8, 12, 24])
        a = rvals(rng, kind, s, 'small')
        L = 24 if l is None else l
        ref = lambda P: _bits(P['a'], L, 0)
    elif kind == 'fxp':
        l = rng.choice([None, 20, 32, 40])
        a = rvals(rng, kind, s, rng.choice(['small', 'integral']))
        L = 32 if l is None else l
        ref = lambda P: _bits(np.vectorize(lambda x: int(round(x * 2**F)), otypes='O')(P['a']) if P['a'].size else np.zeros(s, dtype=object), L, 0).astype(float)
    else:
        l = rng.choice([None, 7, 4])
        a = rvals(rng, kind, s, 'small')
        L = 7 if l is None else l
        ref = lambda P: _bits(P['a'], L, 0)
    return {'inputs': {'a': a}, 'call': lambda mpc, S, X: mpc.np_to_bits(X['a'], l=l), 'ref': ref,
            'scalar': lambda mpc, S, L_: _stack_bits(bvec(lambda x: mpc.to_bits(x, l=l), L_['a']), s, L),
            'lean': lambda P, decl, plain: [(f'tobitsshape {shp(s)} {L}', shp(decl))],
            'desc': f'mpc.np_to_bits(a{list(s)}, l={l})', 'key': (s, l, str(a.tolist())), 'nontrivial': a.size > 0}


def _bits(a, L, _):
    out = np.empty(a.shape + (L,), dtype=object)
    for i in np.ndindex(a.shape):
        v = int(a[i])
        for j in range(L):
            out[i + (j,)] = (v >> j) & 1
    return out


def _stack_bits(objarr, s, L):
    out = np.empty(tuple(s) + (L,), dtype=object)
    for i in np.ndindex(tuple(s)):
        for j in range(L):
            out[i + (j,)] = objarr[i][j]
    return out


@op('np_from_bits', ['int', 'fxp'])
def _from_bits(rng, kind, force):
    s = rshape(rng, 2, 6)
    l = rng.randint(1, 10)
    a = rvals(rng, kind, s + (l,), 'bits')
    ref = lambda P: vec(lambda *bs: sum(int(b) << j for j, b in enumerate(bs)), *[P['a'][..., j] for j in range(l)]) if True else None
    return {'inputs': {'a': a}, 'call': lambda mpc, S, X: mpc.np_from_bits(X['a']),
            'ref': (lambda P: ref(P).astype(float)) if kind == 'fxp' else ref,
            'scalar': lambda mpc, S, L: bvec(lambda *bs: mpc.from_bits(list(bs)), *[L['a'][..., j] for j in range(l)]),
            'lean': lambda P, decl, plain: [(f'frombitsshape {shp(s + (l,))}', shp(decl))] if isinstance(decl, tuple) else [],
            'desc': f'mpc.np_from_bits(a{list(s + (l,))})', 'key': (s, l, str(a.tolist())), 'nontrivial': True}


@op('np_is_zero_public', ['int', 'f11', 'f101', 'fM'])
def _izp(rng, kind, force):
    s = rshape(rng)
    a = rvals(rng, kind, s, 'tiny' if kind == 'int' else 'small')
    if a.size and rng.random() < 0.7:
        a.reshape(-1)[rng.randrange(a.size)] = 0

    def call(mpc, S, X):
        return _Awaited(mpc.np_is_zero_public(X['a']))
    return {'inputs': {'a': a}, 'call': call, 'ref': lambda P: vec(lambda x: int(int(x) % (modulus(kind) or 2**80) == 0), P['a']),
            'desc': f'mpc.np_is_zero_public(a{list(s)})', 'key': (s, str(a.tolist())), 'nontrivial': a.size > 1}


class _Awaited:
    """marks a future/awaitable whose result is public (not a secure object)"""
    def __init__(self, fut):
        self.fut = fut


# ---------------------------------------------------------------------------------------------
# reductions
# ---------------------------------------------------------------------------------------------
def _axis(rng, nd, allow_tuple=True, allow_none=True):
    if nd == 0:
        return None
    r = rng.random()
    if allow_none and r < 0.3:
        return None
    if allow_tuple and r < 0.5 and nd >= 2:
        k = rng.randint(1, nd)
        ax = rng.sample(range(nd), k)
        return tuple(a - nd if rng.random() < 0.3 else a for a in ax)
    a = rng.randrange(nd)
    return a - nd if rng.random() < 0.3 else a


def _nplist(a, axis):
    """list of the 1-D lanes reduced by an axis spec: returns (result_shape, [list of index tuples per result cell])"""
    nd = a.ndim
    if axis is None:
        axes = tuple(range(nd))
    elif isinstance(axis, tuple):
        axes = tuple(x % nd for x in axis)
    else:
        axes = (axis % nd,)
    keep = [i for i in range(nd) if i not in axes]
    rs = tuple(a.shape[i] for i in keep)
    cells = {}
    for idx in np.ndindex(a.shape):
        key = tuple(idx[i] for i in keep)
        cells.setdefault(key, []).append(idx)
    return rs, cells


def _reduce_scalar(L, axis, f):
    rs, cells = _nplist(L, axis)
    out = np.empty(rs, dtype=object)
    for key in np.ndindex(rs):
        out[key] = f([L[i] for i in cells[key]])
    return out


def _reduction(name, kinds, sec_f, np_f, sc_f, mode='small', tol=0.0, maxsize=24, keepdims_ok=False, tuple_ok=True, min1=False,
               lean_name=None):
    @op(name, kinds)
    def plan(rng, kind, force):
        s = rshape(rng, 3, maxsize, mindim=1, allow0=not min1)
        axis = _axis(rng, len(s), allow_tuple=tuple_ok)
        keep = keepdims_ok and rng.random() < 0.3
        a = rvals(rng, kind, s, mode)
        kw = {'axis': axis}
        if keep:
            kw['keepdims'] = True

        def ref(P):
            r = np_f(kind, P['a'], **kw)
            return fmod(kind, np.asarray(r, dtype=object) if kind != 'fxp' else np.asarray(r, dtype=float))

        def scalar(mpc, S, L):
            r = _reduce_scalar(L['a'], axis, lambda xs: sc_f(mpc, xs))
            if keep:
                r = r.reshape(np.asarray(np_f(kind, a, **kw)).shape)
            return r

        def lean(P, decl, plain):
            if lean_name is None:
                return []
            ax = 'none' if axis is None else ints(axis if isinstance(axis, tuple) else (axis,))
            return [(f'sumshape {shp(s)} {ax} {int(keep)}', shp(to_np(plain).shape))]
        return {'inputs': {'a': a}, 'call': lambda mpc, S, X: sec_f(mpc, X['a'], **kw), 'ref': ref, 'tol': tol,
                'scalar': scalar if sc_f and a.size and all(len(c) for c in _nplist(a, axis)[1].values()) else None,
                'lean': lean, 'desc': f'mpc.{name}(a{list(s)}, {kw})', 'key': (s, str(kw), str(a.tolist())),
                'tags': ['axis:' + ('none' if axis is None else 'tuple' if isinstance(axis, tuple) else 'int')] + (['keepdims'] if keep else [])
                + (['zero-size'] if a.size == 0 else []), 'nontrivial': a.size > 1}
    return plan


def _np_min(kind, a, **kw):
    return np.min(a, **kw)


_reduction('np_sum', ALLK, lambda mpc, a, **kw: mpc.np_sum(a, **kw), lambda k, a, **kw: np.sum(a, **kw), lambda mpc, xs: mpc.sum(xs),
           keepdims_ok=True, lean_name='sum')
_reduction('np_prod', ['int', 'fxp', 'f11', 'f101', 'fM'], lambda mpc, a, **kw: mpc.np_prod(a, **kw), lambda k, a, **kw: np.prod(a, **kw),
           lambda mpc, xs: mpc.prod(xs), mode='tiny', maxsize=12, tol=64 * ULP, lean_name='sum')
_reduction('np_all', ['int', 'f101'], lambda mpc, a, **kw: mpc.np_all(a, **kw), lambda k, a, **kw: np.prod(a, **kw),
           lambda mpc, xs: mpc.all(xs), mode='bits', lean_name='sum')
_reduction('np_any', ['int', 'f101'], lambda mpc, a, **kw: mpc.np_any(a, **kw), lambda k, a, **kw: 1 - np.prod(1 - a, **kw),
           lambda mpc, xs: mpc.any(xs), mode='bits', lean_name='sum')
_reduction('np_amin', ORD, lambda mpc, a, **kw: mpc.np_amin(a, **kw), lambda k, a, **kw: np.min(a, **kw), lambda mpc, xs: mpc.min(xs),
           keepdims_ok=True, min1=True, lean_name='sum')
_reduction('np_amax', ORD, lambda mpc, a, **kw: mpc.np_amax(a, **kw), lambda k, a, **kw: np.max(a, **kw), lambda mpc, xs: mpc.max(xs),
           keepdims_ok=True, min1=True, lean_name='sum')


@op('np_sum_initial', ['int', 'f101'])
def _sum_initial(rng, kind, force):
    s = rshape(rng, 2, 12, mindim=1)
    a = rvals(rng, kind, s)
    init = rng.randint(1, 9)
    return {'inputs': {'a': a}, 'call': lambda mpc, S, X: mpc.np_sum(X['a'], axis=0, initial=init),
            'ref': lambda P: fmod(kind, np.sum(P['a'], axis=0, initial=init)),
            'desc': f'mpc.np_sum(a{list(s)}, axis=0, initial={init})', 'key': (s, init, str(a.tolist()))}


@op('np_cumsum', ALLK)
def _cumsum(rng, kind, force):
    s = rshape(rng)
    axis = _axis(rng, len(s), allow_tuple=False)
    a = rvals(rng, kind, s)
    which = _pick(rng, force, ['cumsum', 'cumulative_sum'])
    inc = which == 'cumulative_sum' and rng.random() < 0.5
    if which == 'cumulative_sum' and axis is None and len(s) > 1:
        axis = 0

    def call(mpc, S, X):
        if which == 'cumsum':
            return mpc.np_cumsum(X['a'], axis=axis)
        return mpc.np_cumulative_sum(X['a'], axis=axis, include_initial=inc)

    def ref(P):
        x = P['a']
        if which == 'cumsum':
            return fmod(kind, np.cumsum(x, axis=axis))
        return fmod(kind, np.cumulative_sum(x, axis=axis, include_initial=inc))
    return {'inputs': {'a': a}, 'call': call, 'ref': ref,
            'lean': (lambda P, decl, plain: [(f'cumsumshape {shp(s)} {int(axis is None)}', shp(decl))]) if which == 'cumsum' else None,
            'desc': f'mpc.np_{which}(a{list(s)}, axis={axis}, include_initial={inc})', 'key': (s, axis, which, inc, str(a.tolist()))}


@op('np_trace', ALLK)
def _trace(rng, kind, force):
    s = rshape(rng, 3, 24, mindim=2)
    a = rvals(rng, kind, s)
    off = rng.randint(-2, 2)
    ax1, ax2 = rng.sample(range(len(s)), 2)
    if rng.random() < 0.3:
        ax1 -= len(s)
    which = _pick(rng, force, ['trace', 'diagonal'])

    def call(mpc, S, X):
        return (mpc.np_trace if which == 'trace' else mpc.np_diagonal)(X['a'], offset=off, axis1=ax1, axis2=ax2)

    def ref(P):
        return fmod(kind, (np.trace if which == 'trace' else np.diagonal)(P['a'], offset=off, axis1=ax1, axis2=ax2))
    return {'inputs': {'a': a}, 'call': call, 'ref': ref,
            'desc': f'mpc.np_{which}(a{list(s)}, offset={off}, axis1={ax1}, axis2={ax2})', 'key': (s, off, ax1, ax2, which, str(a.tolist()))}


@op('np_compose', ALLK)
def _compose(rng, kind, force):
    """two array operations in a row: the first returns a view-like rearrangement (its declared shape and its underlying
    NumPy array, possibly a read-only or strided view, are what the second operation works on)"""
    s = rshape(rng, 3, 24, mindim=2, allow0=False)
    a = rvals(rng, kind, s)
    nd = len(s)
    off = rng.randint(-2, 2)
    ax1, ax2 = rng.sample(range(nd), 2)
    perm = list(range(nd))
    rng.shuffle(perm)
    firsts = {
        'diagonal': (lambda mpc, x: mpc.np_diagonal(x, offset=off, axis1=ax1, axis2=ax2), lambda x: np.diagonal(x, offset=off, axis1=ax1, axis2=ax2)),
        'transpose': (lambda mpc, x: mpc.np_transpose(x, perm), lambda x: np.transpose(x, perm)),
        'flip': (lambda mpc, x: mpc.np_flip(x), lambda x: np.flip(x)),
        'reversed-slice': (lambda mpc, x: x[::-1], lambda x: x[::-1]),
        'swapaxes': (lambda mpc, x: mpc.np_swapaxes(x, ax1, ax2), lambda x: np.swapaxes(x, ax1, ax2)),
        'row': (lambda mpc, x: x[0], lambda x: x[0]),
    }
    seconds = {
        'flip': (lambda mpc, y: mpc.np_flip(y), lambda y: np.flip(y)),
        'add1': (lambda mpc, y: y + 1, lambda y: y + 1),
        'negative': (lambda mpc, y: -y, lambda y: -y),
        'roll': (lambda mpc, y: mpc.np_roll(y, 1), lambda y: np.roll(y, 1)),
        'sum': (lambda mpc, y: mpc.np_sum(y, axis=0), lambda y: np.sum(y, axis=0)),
        'concatenate': (lambda mpc, y: mpc.np_concatenate((y, y)), lambda y: np.concatenate((y, y))),
        'flatten-list': (lambda mpc, y: mpc.np_fromlist(mpc.np_tolist(y.flatten())) if y.size else y.flatten(), lambda y: y.flatten()),
        'transpose': (lambda mpc, y: y.T, lambda y: y.T),
        'reshape': (lambda mpc, y: mpc.np_reshape(y, (-1,)), lambda y: y.reshape(-1)),
        'copy': (lambda mpc, y: mpc.np_copy(y), lambda y: y.copy()),
    }
    f1 = rng.choice(sorted(firsts))
    f2 = rng.choice(sorted(seconds))

    def call(mpc, S, X):
        return seconds[f2][0](mpc, firsts[f1][0](mpc, X['a']))

    def ref(P):
        return fmod(kind, seconds[f2][1](firsts[f1][1](P['a'])))
    return {'inputs': {'a': a}, 'call': call, 'ref': ref, 'tags': ['compose:' + f1 + '+' + f2],
            'desc': f'{f2}({f1}(a{list(s)})) [offset={off}, axes=({ax1},{ax2}), perm={perm}]',
            'key': (s, f1, f2, off, ax1, ax2, tuple(perm), str(a.tolist()))}


@op('np_argmin', ORD)
def _argmin(rng, kind, force):
    s = rshape(rng, 3, 16, mindim=1, allow0=False)
    a = rvals(rng, kind, s, rng.choice(['small', 'tiny']))
    which = _pick(rng, force, ['argmin', 'argmax'])
    axis = _axis(rng, len(s), allow_tuple=False)
    if rng.random() < 0.35:
        # >= 3 dimensions and an axis that is neither the last nor the last but one: the lanes must come back in the
        # row-major order of the REMAINING axes (defect fixed in the repo: swapaxes instead of moveaxis semantics)
        s = rng.choice([(2, 2, 3), (3, 2, 2), (2, 3, 2), (2, 2, 2, 2)])
        a = rvals(rng, kind, s, 'small')
        axis = rng.choice([0, -len(s)] + ([1] if len(s) == 4 else []))
    keep = rng.random() < 0.3
    unary = rng.random() < 0.4
    arg_only = rng.random() < 0.5
    method = rng.random() < 0.2      # a.argmin(): unit vectors + extreme values by default
    npf = np.argmin if which == 'argmin' else np.argmax
    npm = np.min if which == 'argmin' else np.max

    def call(mpc, S, X):
        if method:
            return getattr(X['a'], which)(axis=axis)
        return getattr(mpc, 'np_' + which)(X['a'], axis=axis, keepdims=keep, arg_unary=unary, arg_only=arg_only)

    def ref(P):
        x = P['a']
        un, ao, kd = (True, False, False) if method else (unary, arg_only, keep)
        ix = npf(x, axis=axis, keepdims=kd if not un else False)
        if un:
            # unit vectors along the (flattened) axis, same shape as the (possibly flattened) input
            if axis is None:
                u = np.zeros(x.size, dtype=object)
                u[int(ix)] = 1
            else:
                u = np.zeros(x.shape, dtype=object)
                ixx = np.expand_dims(npf(x, axis=axis), axis)
                np.put_along_axis(u, ixx, 1, axis)
        else:
            u = np.asarray(ix, dtype=object)
        if kind == 'fxp':
            u = np.asarray(u, dtype=float)
        if ao:
            return u
        return [u, npm(x, axis=axis, keepdims=kd)]

    def check(got, exp):
        un, ao, kd = (True, False, False) if method else (unary, arg_only, keep)
        if ao:
            return same(kind, got, exp)
        msg = same(kind, got[0], exp[0])
        if msg:
            return 'indices: ' + msg
        g, e = to_np(got[1]), to_np(exp[1])
        if not kd and axis is not None:
            g, e = g.reshape(-1), e.reshape(-1)   # documented: "a 1D array of minimum values" (the code returns shape (lanes, 1))
        msg = same(kind, g, e)
        return ('extreme values: ' + msg) if msg else None
    return {'inputs': {'a': a}, 'call': call, 'ref': ref, 'check': check,
            'desc': f'mpc.np_{which}(a{list(s)}, axis={axis}, keepdims={keep}, arg_unary={unary}, arg_only={arg_only}, method={method})',
            'key': (s, which, axis, keep, unary, arg_only, method, str(a.tolist())), 'tags': [f'{which}', f'unary:{unary}', f'arg_only:{arg_only}']}


@op('np_sort', ORD)
def _sort(rng, kind, force):
    s = rshape(rng, 3, 16, mindim=1)
    a = rvals(rng, kind, s)
    axis = _axis(rng, len(s), allow_tuple=False)
    meth = rng.random() < 0.3

    def scalar(mpc, S, L):
        x = L['a']
        if axis is None:
            return np.array(mpc.sorted(list(x.reshape(-1))), dtype=object) if x.size > 0 else None
        out = np.empty(x.shape, dtype=object)
        xm = np.moveaxis(x, axis, -1)
        om = np.moveaxis(out, axis, -1)
        for i in np.ndindex(xm.shape[:-1]):
            srt = mpc.sorted(list(xm[i]))
            for j, v in enumerate(srt):
                om[i + (j,)] = v
        return out
    return {'inputs': {'a': a}, 'call': lambda mpc, S, X: X['a'].sort(axis=axis) if meth else mpc.np_sort(X['a'], axis=axis),
            'ref': lambda P: np.sort(P['a'], axis=axis), 'scalar': scalar if a.size else None,
            'desc': f'mpc.np_sort(a{list(s)}, axis={axis})', 'key': (s, axis, str(a.tolist())), 'nontrivial': a.size > 1}


@op('np_where', ALLK)
def _where(rng, kind, force):
    sa, sb = bpair(rng)
    sc = bpair(rng)[0] if rng.random() < 0.3 else sa
    try:
        np.broadcast_shapes(sa, sb, sc)
    except ValueError:
        sc = sa
    a, b = rvals(rng, kind, sa), rvals(rng, kind, sb)
    c = rvals(rng, kind, sc, 'bits')
    which = _pick(rng, force, ['where', 'if_swap'])

    def call(mpc, S, X):
        if which == 'where':
            return mpc.np_where(X['c'], X['a'], X['b'])
        return list(mpc.np_if_swap(X['c'], X['a'], X['b']))

    def ref(P):
        cc = np.vectorize(lambda x: bool(x), otypes=[bool])(P['c']) if P['c'].size else P['c'].astype(bool)
        w = np.where(cc, P['a'], P['b'])
        if which == 'where':
            return w
        return [np.where(cc, P['b'], P['a']), w]   # (a - d, b + d) with d = c (a - b)

    def scalar(mpc, S, L):
        if which == 'where':
            return bvec(lambda c_, x, y: mpc.if_else(c_, x, y), L['c'], L['a'], L['b'])
        r = bvec(lambda c_, x, y: mpc.if_swap(c_, x, y), L['c'], L['a'], L['b'])
        o0, o1 = np.empty(r.shape, dtype=object), np.empty(r.shape, dtype=object)
        for i in np.ndindex(r.shape):
            o0[i], o1[i] = r[i][0], r[i][1]
        return [o0, o1]
    return {'inputs': {'a': a, 'b': b, 'c': c}, 'call': call, 'ref': ref, 'scalar': scalar, 'tol': 1.01 * ULP, 'tol_scalar': 2.02 * ULP,
            'lean': lambda P, decl, plain: [(f'bshapes {shp(sc)} {shp(sa)} {shp(sb)}', shp(decl if which == 'where' else decl[0]))]
            if (decl if which == 'where' else decl[0]) is not None else [],
            'desc': f'mpc.np_{which}(c{list(sc)}, a{list(sa)}, b{list(sb)})', 'key': (sa, sb, sc, which, str(a.tolist()), str(c.tolist()))}


# ---------------------------------------------------------------------------------------------
# linear algebra
# ---------------------------------------------------------------------------------------------
def _mm_shapes(rng):
    r = rng.random()
    k = rng.randint(1, 4)
    if r < 0.15:
        return (k,), (k,)
    if r < 0.3:
        return (rng.randint(1, 4), k), (k,)
    if r < 0.45:
        return (k,), (k, rng.randint(1, 4))
    if r < 0.8:
        return (rng.randint(1, 4), k), (k, rng.randint(1, 4))
    ba, bb = bpair(rng, 4)
    n, m = rng.randint(1, 2), rng.randint(1, 2)
    return tuple(ba) + (n, k), tuple(bb) + (k, m)


def _objmatmul(a, b):
    return np.matmul(a, b) if a.dtype != object else np.matmul(a.astype(object), b.astype(object))


@op('np_matmul', ALLK + ['f256'])
def _matmul(rng, kind, force):
    sa, sb = _mm_shapes(rng)
    if kind == 'f256':
        sa, sb = (2, 3), (3, 2)
    variant = rng.choice(['sec', 'sec', 'sec', 'pubB', 'pubA', 'same']) if kind != 'f256' else 'sec'
    if variant == 'same':
        n = rng.randint(1, 4)
        sa = sb = (n, n)
    a, b = rvals(rng, kind, sa, 'small'), rvals(rng, kind, sb, 'small')
    if kind == 'fxp':
        a, b = rvals(rng, kind, sa, 'tiny'), rvals(rng, kind, sb, 'small')
        r = rng.random()
        if r < 0.3:          # integral flag of one / both operands set: the `>>= f` paths instead of np_trunc
            a = np.asarray(np.round(a), dtype=float)
        elif r < 0.5:
            a, b = np.asarray(np.round(a), dtype=float), np.asarray(np.round(b), dtype=float)
    if variant == 'same':
        b = a
    inputs = {'a': a} if variant in ('pubB', 'same') else ({'b': b} if variant == 'pubA' else {'a': a, 'b': b})

    def pub(x):
        return x if kind == 'fxp' else x.astype(np.int64)

    def call(mpc, S, X):
        if variant == 'sec':
            return mpc.np_matmul(X['a'], X['b'])
        if variant == 'same':
            return X['a'] @ X['a']
        if variant == 'pubB':
            return X['a'] @ pub(b)
        return pub(a) @ X['b']

    def ref(P):
        if kind == 'f256':
            return _gf256_matmul(a, b)
        return fmod(kind, _objmatmul(a, b))

    def scalar(mpc, S, L):
        if kind == 'f256' or variant in ('pubA', 'pubB') or len(sa) != 2 or len(sb) != 2:
            return None
        A = [list(r) for r in L['a']]
        B = [list(r) for r in (L['a'] if variant == 'same' else L['b'])]
        return np.array(mpc.matrix_prod(A, B), dtype=object).reshape(sa[0], sb[1])

    def lean(P, decl, plain):
        out = [(f'mmshape {shp(sa)} {shp(sb)}', 'scalar' if decl is None else shp(decl))]
        if kind == 'int' and len(sa) == 2 and len(sb) == 2:
            out.append((f'mm2 {sa[0]} {sa[1]} {sb[1]} {ints(flat_ints(a))} {ints(flat_ints(b))}',
                        f'{shp(to_np(plain).shape)}|{ints(flat_ints(plain))}'))
        return out
    return {'inputs': inputs, 'call': call, 'ref': ref, 'scalar': scalar if (len(sa) == 2 and len(sb) == 2 and variant in ('sec', 'same') and kind != 'f256') else None,
            'lean': lean, 'tol': 1.01 * ULP, 'tol_scalar': 2.02 * ULP,
            'desc': f'mpc.np_matmul(a{list(sa)}, b{list(sb)}:{variant})', 'key': (sa, sb, variant, str(a.tolist()), str(b.tolist())),
            'tags': ['matmul:' + variant, f'matmul-dims:{len(sa)}x{len(sb)}']}


def _gf256_mul(x, y, mod=0x11b):
    r = 0
    while y:
        if y & 1:
            r ^= x
        y >>= 1
        x <<= 1
        if x & 0x100:
            x ^= mod
    return r


def _gf256_matmul(a, b):
    n, k = a.shape
    m = b.shape[1]
    out = np.zeros((n, m), dtype=object)
    for i in range(n):
        for j in range(m):
            v = 0
            for l in range(k):
                v ^= _gf256_mul(int(a[i, l]), int(b[l, j]))
            out[i, j] = v
    return out


def _gf256_inv(x):
    x = int(x)
    for y in range(1, 256):
        if _gf256_mul(x, y) == 1:
            return y
    raise ZeroDivisionError


@op('f256_arith', ['f256'])
def _f256(rng, kind, force):
    s = rshape(rng, 2, 12)
    a, b = rvals(rng, kind, s), rvals(rng, kind, s)
    which = force or rng.choice(['add', 'mul', 'sum', 'reciprocal', 'div', 'is_zero_public'])
    if which in ('reciprocal', 'div'):       # nonzero divisors (small-field zero sharing: np_pseudorandom_share_0)
        b = vec(lambda x: int(x) or 1 + rng.randrange(255), b)
    if which == 'is_zero_public' and a.size and rng.random() < 0.7:
        a.reshape(-1)[rng.randrange(a.size)] = 0

    def call(mpc, S, X):
        assert S.field.modulus == 0x11b, S.field.modulus
        if which == 'reciprocal':
            return mpc.np_reciprocal(X['b'])
        if which == 'div':
            return X['a'] / X['b']
        if which == 'is_zero_public':
            return _Awaited(mpc.np_is_zero_public(X['a']))
        return X['a'] + X['b'] if which == 'add' else X['a'] * X['b'] if which == 'mul' else mpc.np_sum(X['a'] * X['b'])

    def ref(P):
        if which == 'add':
            return vec(lambda x, y: int(x) ^ int(y), a, b)
        if which == 'reciprocal':
            return vec(_gf256_inv, b)
        if which == 'div':
            return vec(lambda x, y: _gf256_mul(int(x), _gf256_inv(y)), a, b)
        if which == 'is_zero_public':
            return vec(lambda x: int(int(x) == 0), a)
        pr = vec(lambda x, y: _gf256_mul(int(x), int(y)), a, b)
        if which == 'mul':
            return pr
        v = 0
        for x in pr.reshape(-1):
            v ^= x
        return np.array(v, dtype=object)

    def scalar(mpc, S, L):
        if which == 'reciprocal':
            return bvec(lambda y: mpc.reciprocal(y), L['b'])
        if which == 'div':
            return bvec(lambda x, y: x / y, L['a'], L['b'])
        return bvec(lambda x, y: x + y if which == 'add' else x * y, L['a'], L['b'])
    return {'inputs': {'a': a, 'b': b}, 'call': call, 'ref': ref,
            'scalar': scalar if which not in ('sum', 'is_zero_public') else None,
            'desc': f'GF(2^8) arrays: {which} a{list(s)} b{list(s)}', 'key': (s, which, str(a.tolist()), str(b.tolist()))}


@op('np_outer', ALLK)
def _outer(rng, kind, force):
    sa, sb = rshape(rng, 2, 6, allow0=False), rshape(rng, 2, 6, allow0=False)
    a, b = rvals(rng, kind, sa, 'small' if kind != 'fxp' else 'tiny'), rvals(rng, kind, sb)
    if kind == 'fxp' and rng.random() < 0.4:
        a = np.asarray(np.round(a), dtype=float)
    return {'inputs': {'a': a, 'b': b}, 'call': lambda mpc, S, X: mpc.np_outer(X['a'], X['b']),
            'ref': lambda P: fmod(kind, np.outer(a, b)), 'tol': 1.01 * ULP, 'tol_scalar': 2.02 * ULP,
            'scalar': lambda mpc, S, L: bvec(lambda x, y: x * y, L['a'].reshape(-1, 1), L['b'].reshape(1, -1)),
            'lean': (lambda P, decl, plain: [(f'outer {ints(flat_ints(a))} {ints(flat_ints(b))}', f'{shp(decl)}|{ints(flat_ints(plain))}')]) if kind == 'int' else None,
            'desc': f'mpc.np_outer(a{list(sa)}, b{list(sb)})', 'key': (sa, sb, str(a.tolist()), str(b.tolist()))}


@op('np_convolve', ALLK)
def _convolve(rng, kind, force):
    m, n = rng.randint(1, 6), rng.randint(1, 6)
    mode = rng.choice(['full', 'full', 'same', 'valid'])
    a, b = rvals(rng, kind, (m,), 'small' if kind != 'fxp' else 'tiny'), rvals(rng, kind, (n,))
    if kind == 'fxp' and rng.random() < 0.4:
        a = np.asarray(np.round(a), dtype=float)
    pubb = rng.random() < 0.25

    def call(mpc, S, X):
        return mpc.np_convolve(X['a'], (b if kind == 'fxp' else b.astype(np.int64)) if pubb else X['b'], mode=mode)
    return {'inputs': {'a': a} if pubb else {'a': a, 'b': b}, 'call': call,
            'ref': lambda P: fmod(kind, np.convolve(a, b, mode=mode)), 'tol': 1.01 * ULP,
            'lean': lambda P, decl, plain: [(f'convshape {m} {n} {mode}', shp(decl))],
            'desc': f'mpc.np_convolve(a[{m}], b[{n}]{":public" if pubb else ""}, mode={mode})', 'key': (m, n, mode, pubb, str(a.tolist()), str(b.tolist()))}


@op('np_det', ['int', 'f11', 'f101', 'fM'])
def _det(rng, kind, force):
    n = rng.randint(1, 4)
    p = modulus(kind)
    while True:
        a = rvals(rng, kind, (n, n)) if p else np.array([rng.randint(-4, 4) for _ in range(n * n)], dtype=object).reshape(n, n)
        d = _det_mod(a, p) if p else _det_int(a)
        if d != 0:
            break
    return {'inputs': {'a': a}, 'call': lambda mpc, S, X: mpc.np_det(X['a']), 'ref': lambda P: np.array(d, dtype=object),
            'desc': f'mpc.np_det(a[{n},{n}]) (nonsingular)', 'key': (n, str(a.tolist()))}


@op('field_array_det', ['f11', 'f101'])
def _field_det(rng, kind, force):
    """np.linalg.det on the finite-field arrays under the secure arrays (FiniteFieldArray.gauss_det, which Runtime.np_det
    applies to the opened masked matrix): sparse matrices over small fields, so that pivot searches with row swaps occur"""
    n = rng.randint(1, 4)
    batch = rng.choice([(), (), (2,), (2, 2)])
    p = modulus(kind)
    a = np.array([rng.randrange(p) if rng.random() < 0.55 else 0 for _ in range(int(np.prod(batch, dtype=int)) * n * n)],
                 dtype=object).reshape(batch + (n, n))
    d = np.empty(batch, dtype=object)
    for i in np.ndindex(batch):
        d[i] = _det_mod(a[i], p)

    def call(mpc, S, X):
        A = S.field.array(a.copy())
        r = np.linalg.det(A)
        return S.array(r) if batch else S(r)
    return {'inputs': {'a': a}, 'call': call, 'ref': lambda P: d if batch else np.array(d[()], dtype=object),
            'desc': f'np.linalg.det(GF({p}).array(a{list(a.shape)}))', 'key': (n, batch, str(a.tolist()))}


def _det_int(a):
    from fractions import Fraction
    n = a.shape[0]
    M = [[Fraction(int(x)) for x in r] for r in a]
    det = Fraction(1)
    for c in range(n):
        piv = next((r for r in range(c, n) if M[r][c] != 0), None)
        if piv is None:
            return 0
        if piv != c:
            M[c], M[piv] = M[piv], M[c]
            det = -det
        det *= M[c][c]
        for r in range(c + 1, n):
            f = M[r][c] / M[c][c]
            for k in range(c, n):
                M[r][k] -= f * M[c][k]
    return int(det)


def _det_mod(a, p):
    n = a.shape[0]
    M = [[int(x) % p for x in r] for r in a]
    det = 1
    for c in range(n):
        piv = next((r for r in range(c, n) if M[r][c]), None)
        if piv is None:
            return 0
        if piv != c:
            M[c], M[piv] = M[piv], M[c]
            det = -det
        det = det * M[c][c] % p
        inv = pow(M[c][c], -1, p)
        for r in range(c + 1, n):
            f = M[r][c] * inv % p
            for k in range(c, n):
                M[r][k] = (M[r][k] - f * M[c][k]) % p
    return det % p


@op('np_vander', ALLK)
def _vander(rng, kind, force):
    n = rng.randint(1, 5)
    N = rng.choice([None, 0, 1, 2, 3, 5])
    inc = rng.random() < 0.5
    a = rvals(rng, kind, (n,), 'tiny' if kind in ORD else 'small')
    return {'inputs': {'a': a}, 'call': lambda mpc, S, X: mpc.np_vander(X['a'], N, increasing=inc),
            'ref': lambda P: fmod(kind, np.vander(a, N, increasing=inc)), 'tol': 16 * ULP,
            'desc': f'mpc.np_vander(a[{n}], N={N}, increasing={inc})', 'key': (n, N, inc, str(a.tolist()))}


# ---------------------------------------------------------------------------------------------
# reshaping family (pure data movement: NumPy + Lean gather maps; data = arange so that the opened
# flat result IS the gather map)
# ---------------------------------------------------------------------------------------------
def _mov(name, kinds=ALLK, weight=1):
    """decorator: plan builder returns (inputs-shapes dict, call, ref, lean, desc, key[, extra])"""
    def deco(build):
        @op(name, kinds)
        def plan(rng, kind, force):
            r = build(rng, kind, force)
            shapes = r['shapes']
            inputs, start = {}, 0
            ar = kind == 'int' or rng.random() < 0.5
            for nm, s in shapes.items():
                inputs[nm] = arange_vals(kind, s, start) if ar else rvals(rng, kind, s)
                start += math.prod(s)
            pl = {'inputs': inputs, 'call': r['call'], 'ref': lambda P: r['ref'](P), 'desc': r['desc'],
                  'key': (str(r['key']), ar), 'tags': r.get('tags', []), 'nontrivial': True}
            if r.get('lean') and kind == 'int':
                pl['lean'] = r['lean']
            for k in ('expect_exc', 'lean_exc', 'finding_key', 'finding_key_exc', 'finding_key_crash', 'check'):
                if k in r:
                    pl[k] = r[k]
            return pl
        return plan
    return deco


def gmap(plain):
    return ints(flat_ints(plain))


@_mov('np_reshape')
def _reshape(rng, kind, force):
    s = rshape(rng)
    n = math.prod(s)
    for _ in range(20):
        t = rshape(rng, 3, 24, allow0=(n == 0))
        if math.prod(t) == n:
            break
    else:
        t = (n,)
    t = list(t)
    bad = False
    if t and rng.random() < 0.4:
        i = rng.randrange(len(t))
        rest = math.prod(t[:i] + t[i + 1:])
        if rest > 0 and n % rest == 0:
            t[i] = -1
    elif rng.random() < 0.1 and n > 1:
        k = next(k for k in range(2, n + 2) if n % k)
        t = [-1, k]
        bad = True
    order = rng.choice(['C', 'C', 'F'])
    via = rng.choice(['np_reshape', 'method', 'method*', 'int']) if len(t) == 1 else rng.choice(['np_reshape', 'method', 'method*'])
    tt = tuple(t)

    def call(mpc, S, X):
        if via == 'method':
            return X['a'].reshape(tt, order=order)
        if via == 'method*':
            return X['a'].reshape(*tt, order=order)
        return mpc.np_reshape(X['a'], tt[0] if via == 'int' else tt, order=order)
    r = {'shapes': {'a': s}, 'call': call, 'ref': lambda P: P['a'].reshape(tt, order=order),
         'lean': lambda P, decl, plain: [(f'reshape {n} {ints(tt)}', shp(decl))],
         'desc': f'mpc.np_reshape(a{list(s)}, {tt}, order={order}) via {via}', 'key': (s, tt, order, via),
         'tags': ['reshape:-1' if -1 in tt else 'reshape:explicit', 'order:' + order]}
    if bad:
        r['expect_exc'] = 'ValueError'
        r['lean_exc'] = [(f'reshape {n} {ints(tt)}', 'ValueError')]
    return r


@_mov('np_flatten')
def _flatten(rng, kind, force):
    s = rshape(rng)
    order = rng.choice(['C', 'F'])
    which = _pick(rng, force, ['flatten', 'tolist', 'copy', 'flat'])

    def call(mpc, S, X):
        if which == 'flatten':
            return mpc.np_flatten(X['a'], order=order)
        if which == 'tolist':
            return mpc.np_tolist(X['a'])
        if which == 'copy':
            return X['a'].copy()
        return list(X['a'].flat)

    def ref(P):
        if which == 'flatten':
            return P['a'].flatten(order)
        if which == 'tolist':
            return P['a'].tolist() if P['a'].ndim else P['a']
        if which == 'copy':
            return P['a']
        return P['a'].reshape(-1)
    return {'shapes': {'a': s}, 'call': call, 'ref': ref,
            'lean': (lambda P, decl, plain: [(f'flattenshape {shp(s)}', shp(decl))]) if which == 'flatten' else None,
            'desc': f'a{list(s)}.{which}(order={order})', 'key': (s, order, which), 'tags': ['flatten:' + which]}


@_mov('np_fromlist')
def _fromlist(rng, kind, force):
    n = rng.randint(1, 8)

    def call(mpc, S, X):
        return mpc.np_fromlist(mpc.np_tolist(X['a']))
    return {'shapes': {'a': (n,)}, 'call': call, 'ref': lambda P: P['a'], 'desc': f'np_fromlist(np_tolist(a[{n}]))', 'key': n}


@_mov('np_transpose')
def _transpose(rng, kind, force):
    s = rshape(rng)
    nd = len(s)
    which = rng.choice(['transpose', 'transpose', 'swapaxes', 'T', 'rot90'])
    perm = None
    if which == 'transpose' and rng.random() < 0.6:
        perm = list(range(nd))
        rng.shuffle(perm)
    ax = (rng.randrange(-nd, nd), rng.randrange(-nd, nd)) if nd else (0, 0)
    k = rng.randint(-1, 4)
    if which == 'swapaxes' and nd == 0:
        which = 'T'
    if which == 'rot90' and (nd < 2 or (ax[0] - ax[1]) % nd == 0):
        which = 'T'

    def call(mpc, S, X):
        a = X['a']
        if which == 'transpose':
            return mpc.np_transpose(a, axes=perm) if rng_b else (a.transpose(*perm) if perm is not None else a.transpose())
        if which == 'swapaxes':
            return mpc.np_swapaxes(a, ax[0], ax[1])
        if which == 'rot90':
            return mpc.np_rot90(a, k=k, axes=ax)
        return a.T
    rng_b = rng.random() < 0.5

    def ref(P):
        a = P['a']
        if which == 'transpose':
            return a.transpose(perm)
        if which == 'swapaxes':
            return a.swapaxes(*ax)
        if which == 'rot90':
            return np.rot90(a, k=k, axes=ax)
        return a.T

    def lean(P, decl, plain):
        if not isinstance(decl, tuple):
            return []
        if which in ('transpose', 'T'):
            out = [(f'tshape {shp(s)} {opt(perm)}', shp(decl))]
            if P['a'].size and int(P['a'].reshape(-1)[0]) == 0 and nd != 1:
                out.append((f'tmap {shp(s)} {opt(perm)}', gmap(plain)))
            return out
        if which == 'swapaxes':
            return [(f'swapshape {shp(s)} {ax[0]} {ax[1]}', shp(decl))]
        return []
    return {'shapes': {'a': s}, 'call': call, 'ref': ref, 'lean': lean,
            'desc': f'a{list(s)}.{which}(perm={perm}, axes={ax}, k={k})', 'key': (s, which, perm, ax, k), 'tags': ['transpose:' + which]}


def _cat_shapes(rng, nd_min=1, n_arr=None, axis=None):
    s = list(rshape(rng, 3, 8, mindim=nd_min, allow0=False))
    nd = len(s)
    axis = rng.randrange(nd) if axis is None else axis
    k = n_arr or rng.randint(1, 3)
    shapes = []
    for _ in range(k):
        t = list(s)
        t[axis] = rng.randint(0 if (rng.random() < 0.1 and arrays_ops.ALLOW0[0]) else 1, 3)
        shapes.append(tuple(t))
    return shapes, axis


@_mov('np_concatenate')
def _concat(rng, kind, force):
    shapes, axis = _cat_shapes(rng)
    nd = len(shapes[0])
    which = rng.choice(['concatenate', 'concatenate', 'append', 'none'])
    if which == 'append':
        shapes = shapes[:2] if len(shapes) >= 2 else shapes * 2
    ax = axis - nd if rng.random() < 0.3 else axis
    names = [f'x{i}' for i in range(len(shapes))]

    def call(mpc, S, X):
        arrs = tuple(X[n] for n in names)
        if which == 'concatenate':
            return mpc.np_concatenate(arrs, axis=ax)
        if which == 'append':
            return mpc.np_append(arrs[0], arrs[1], axis=ax)
        return mpc.np_concatenate(arrs, axis=None)

    def ref(P):
        arrs = [P[n] for n in names]
        return np.concatenate(arrs, axis=None if which == 'none' else ax)

    def lean(P, decl, plain):
        out = [('concatshape ' + ('none' if which == 'none' else str(ax)) + ' ' + ' '.join(shp(t) for t in shapes), shp(decl))]
        if len(shapes) == 2 and which != 'none':
            out.append((f'concat2 {shp(shapes[0])} {shp(shapes[1])} {axis}', f'{shp(to_np(plain).shape)}|{gmap(plain)}'))
        return out
    return {'shapes': dict(zip(names, shapes)), 'call': call, 'ref': ref, 'lean': lean,
            'desc': f'mpc.np_{which}({[list(t) for t in shapes]}, axis={ax})', 'key': (shapes, ax, which), 'tags': ['concat:' + which]}


@_mov('np_stack')
def _stack(rng, kind, force):
    s = rshape(rng, 2, 8, allow0=False)
    k = rng.randint(1, 3)
    nd = len(s)
    ax = rng.randrange(-(nd + 1), nd + 1)
    if force == 'negative-axis':
        s, k, ax = (2, 3), 2, -1
    names = [f'x{i}' for i in range(k)]
    return {'shapes': {n: s for n in names}, 'call': lambda mpc, S, X: mpc.np_stack(tuple(X[n] for n in names), axis=ax),
            'ref': lambda P: np.stack([P[n] for n in names], axis=ax),
            'lean': lambda P, decl, plain: [(f'stackshape {shp(s)} {k} {ax}', shp(decl)),
                                            (f'npstackshape {shp(s)} {k} {ax}', shp(to_np(plain).shape))],
            'desc': f'mpc.np_stack({k} x a{list(s)}, axis={ax})', 'key': (s, k, ax), 'tags': ['stack-axis:' + ('neg' if ax < 0 else 'nonneg')]}


@_mov('np_xstack')
def _xstack(rng, kind, force):
    which = _pick(rng, force, ['vstack', 'hstack', 'dstack', 'column_stack', 'row_stack', 'block'])
    k = rng.randint(1, 3)
    if which in ('vstack', 'row_stack'):
        nd = rng.randint(1, 3)
        if nd == 1:
            shapes = [(rng.randint(1, 4),)] * k
        else:
            shapes, _ = _cat_shapes(rng, nd, k, 0)
            shapes = [t for t in shapes]
    elif which == 'hstack':
        nd = rng.randint(1, 3)
        shapes, _ = _cat_shapes(rng, nd, k, 0 if nd == 1 else 1)
        if nd != len(shapes[0]):
            shapes, _ = _cat_shapes(rng, len(shapes[0]), k, 0 if len(shapes[0]) == 1 else 1)
    elif which == 'dstack':
        nd = rng.randint(1, 3)
        if nd == 3:
            shapes, _ = _cat_shapes(rng, 3, k, 2)
            if len(shapes[0]) != 3:
                shapes = [(2, 2, 1)] * k
        else:
            shapes = [rshape(rng, nd, 6, mindim=nd, allow0=False)] * k
    elif which == 'column_stack':
        n0 = rng.randint(1, 4)
        shapes = [(n0,) if rng.random() < 0.5 else (n0, rng.randint(1, 3)) for _ in range(k)]
    else:
        n0, n1 = rng.randint(1, 3), rng.randint(1, 3)
        shapes = [(n0, n1), (n0, rng.randint(1, 3)), (rng.randint(1, 2), n1), None]
        shapes[3] = (shapes[2][0], shapes[1][1])
    names = [f'x{i}' for i in range(len(shapes))]

    def call(mpc, S, X):
        arrs = tuple(X[n] for n in names)
        if which == 'block':
            return mpc.np_block([[arrs[0], arrs[1]], [arrs[2], arrs[3]]])
        return getattr(mpc, 'np_' + which)(arrs)

    def ref(P):
        arrs = [P[n] for n in names]
        if which == 'block':
            return np.block([[arrs[0], arrs[1]], [arrs[2], arrs[3]]])
        return getattr(np, which if which != 'row_stack' else 'vstack')(arrs)

    def lean(P, decl, plain):
        nm = {'vstack': 'vstackshape', 'row_stack': 'vstackshape', 'hstack': 'hstackshape', 'dstack': 'dstackshape',
              'column_stack': 'colstackshape'}.get(which)
        return [(nm + ' ' + ' '.join(shp(t) for t in shapes), shp(decl))] if nm else []
    return {'shapes': dict(zip(names, shapes)), 'call': call, 'ref': ref, 'lean': lean,
            'desc': f'mpc.np_{which}({[list(t) for t in shapes]})', 'key': (shapes, which), 'tags': ['xstack:' + which]}


@_mov('np_split')
def _split(rng, kind, force):
    s = list(rshape(rng, 3, 8, mindim=1, allow0=False))
    which = _pick(rng, force, ['split', 'split', 'hsplit', 'vsplit', 'dsplit'])
    nd = {'hsplit': 2, 'vsplit': 1, 'dsplit': 3}.get(which, 1)
    while len(s) < nd:
        s.append(rng.randint(1, 2))
    axis = {'hsplit': 1, 'vsplit': 0, 'dsplit': 2}.get(which, rng.randrange(len(s)))
    N = rng.randint(1, 3)
    s[axis] = N * rng.randint(1, 3)
    s = tuple(s)
    ax = axis - len(s) if which == 'split' and rng.random() < 0.3 else axis

    def call(mpc, S, X):
        if which == 'split':
            return list(mpc.np_split(X['a'], N, axis=ax))
        return list(getattr(mpc, 'np_' + which)(X['a'], N))

    def ref(P):
        return list(np.split(P['a'], N, axis=ax))

    def lean(P, decl, plain):
        out = [(f'splitshape {shp(s)} {N} {ax}', f'{len(decl)}x{shp(decl[0])}')]
        if N == 2:
            h = s[axis] // 2
            out.append((f'split2 {shp(s)} {axis} {h} {h}', f'{gmap(plain[0])}|{gmap(plain[1])}'))
        return out
    return {'shapes': {'a': s}, 'call': call, 'ref': ref, 'lean': lean,
            'desc': f'mpc.np_{which}(a{list(s)}, {N}, axis={ax})', 'key': (s, N, ax, which), 'tags': ['split:' + which]}


@_mov('np_flip')
def _flip(rng, kind, force):
    s = rshape(rng)
    nd = len(s)
    which = _pick(rng, force, ['flip', 'flip', 'fliplr', 'flipud'])
    if which == 'fliplr' and nd < 2 or which == 'flipud' and nd < 1:
        which = 'flip'
    axis = None if nd == 0 or rng.random() < 0.3 else rng.randrange(-nd, nd)

    def call(mpc, S, X):
        if which == 'flip':
            return mpc.np_flip(X['a'], axis=axis)
        return getattr(mpc, 'np_' + which)(X['a'])

    def ref(P):
        return np.flip(P['a'], axis=axis) if which == 'flip' else getattr(np, which)(P['a'])

    def lean(P, decl, plain):
        if which == 'flip' and axis is not None and P['a'].size:
            return [(f'flip {shp(s)} {axis}', gmap(plain))]
        return []
    return {'shapes': {'a': s}, 'call': call, 'ref': ref, 'lean': lean,
            'desc': f'mpc.np_{which}(a{list(s)}, axis={axis})', 'key': (s, axis, which), 'tags': ['flip:' + which]}


@_mov('np_roll')
def _roll(rng, kind, force):
    s = rshape(rng)
    nd = len(s)
    axis = None if nd == 0 or rng.random() < 0.4 else rng.randrange(-nd, nd)
    shift = rng.randint(-7, 7)

    def lean(P, decl, plain):
        if P['a'].size == 0:
            return []
        return [(f'roll {shp(s)} {opt(axis)} {shift}', gmap(plain))]
    return {'shapes': {'a': s}, 'call': lambda mpc, S, X: mpc.np_roll(X['a'], shift, axis=axis),
            'ref': lambda P: np.roll(P['a'], shift, axis=axis), 'lean': lean,
            'desc': f'mpc.np_roll(a{list(s)}, {shift}, axis={axis})', 'key': (s, shift, axis)}


@op('np_roll_secret', ['int', 'f101', 'fxp'])
def _roll_secret(rng, kind, force):
    n = rng.randint(1, 7)
    a = rvals(rng, kind, (n,))
    sh = rng.randint(0, n)
    return {'inputs': {'a': a, 'k': np.array(float(sh)) if kind == 'fxp' else np.array(sh, dtype=object)},
            'call': lambda mpc, S, X: mpc.np_roll(X['a'], mpc.np_getitem(X['k'], ())),
            'ref': lambda P: np.roll(a, sh), 'desc': f'mpc.np_roll(a[{n}], secret shift {sh})', 'key': (n, sh, str(a.tolist()))}


@_mov('np_dims')
def _dims(rng, kind, force):
    which = _pick(rng, force, ['expand_dims', 'squeeze', 'diag', 'diagflat'])
    if which == 'expand_dims':
        s = rshape(rng, 2, 8)
        k = rng.randint(1, 2)
        n = len(s) + k
        axes = rng.sample(range(n), k)
        axes = [a - n if rng.random() < 0.3 else a for a in axes]
        arg = axes[0] if k == 1 and rng.random() < 0.5 else tuple(axes)
        return {'shapes': {'a': s}, 'call': lambda mpc, S, X: mpc.np_expand_dims(X['a'], arg),
                'ref': lambda P: np.expand_dims(P['a'], arg),
                'lean': lambda P, decl, plain: [(f'expandshape {shp(s)} {ints(axes)}', shp(decl))],
                'desc': f'mpc.np_expand_dims(a{list(s)}, {arg})', 'key': (s, arg), 'tags': ['dims:expand']}
    if which == 'squeeze':
        s = tuple(1 if rng.random() < 0.5 else d for d in rshape(rng, 3, 12, mindim=1, allow0=False))
        ones = [i for i, d in enumerate(s) if d == 1]
        if ones and rng.random() < 0.6:
            axes = rng.sample(ones, rng.randint(1, len(ones)))
            axes = [a - len(s) if rng.random() < 0.3 else a for a in axes]
            arg = axes[0] if len(axes) == 1 and rng.random() < 0.5 else tuple(axes)
        else:
            axes, arg = None, None
        return {'shapes': {'a': s}, 'call': lambda mpc, S, X: mpc.np_squeeze(X['a'], axis=arg),
                'ref': lambda P: np.squeeze(P['a'], axis=arg),
                'lean': lambda P, decl, plain: [(f'squeezeshape {shp(s)} {opt(axes)}', shp(decl))],
                'desc': f'mpc.np_squeeze(a{list(s)}, axis={arg})', 'key': (s, arg), 'tags': ['dims:squeeze']}
    k = rng.randint(-2, 2)
    if which == 'diag':
        s = (rng.randint(1, 4),) if rng.random() < 0.5 else (rng.randint(1, 4), rng.randint(1, 4))
        return {'shapes': {'a': s}, 'call': lambda mpc, S, X: mpc.np_diag(X['a'], k=k), 'ref': lambda P: np.diag(P['a'], k=k),
                'lean': lambda P, decl, plain: [(f'diagshape {shp(s)} {k}', shp(decl))],
                'desc': f'mpc.np_diag(a{list(s)}, k={k})', 'key': (s, k), 'tags': ['dims:diag']}
    s = rshape(rng, 2, 4, allow0=False)
    return {'shapes': {'a': s}, 'call': lambda mpc, S, X: mpc.np_diagflat(X['a'], k=k), 'ref': lambda P: np.diagflat(P['a'], k=k),
            'desc': f'mpc.np_diagflat(a{list(s)}, k={k})', 'key': (s, k), 'tags': ['dims:diagflat']}


def _rkey(rng, s):
    while True:
        key, w = _rkey0(rng, s)
        try:
            np.empty(s)[key]
            return key, w
        except IndexError:
            continue


def _rkey0(rng, s):
    """random index key for shape s: (python key, description)"""
    kinds = ['basic', 'basic', 'basic', 'ellipsis', 'newaxis', 'intarray', 'boolmask']
    w = rng.choice(kinds)
    nd = len(s)
    if nd == 0:
        return rng.choice([(), Ellipsis, (np.newaxis,)]), 'scalar-key'
    if w == 'boolmask':
        m = np.array([rng.random() < 0.5 for _ in range(math.prod(s))]).reshape(s)
        return m, 'boolmask'
    if w == 'intarray' and s[0] > 0:
        return np.array([rng.randrange(-s[0], s[0]) for _ in range(rng.randint(1, 3))]), 'intarray'
    key = []
    for d in s[:rng.randint(1, nd)]:
        r = rng.random()
        if r < 0.4 and d > 0:
            key.append(rng.randrange(-d, d))
        elif r < 0.9:
            a, b = rng.choice([None, rng.randint(-d - 1, d + 1)]), rng.choice([None, rng.randint(-d - 1, d + 1)])
            key.append(slice(a, b, rng.choice([None, 1, 2, -1])))
        else:
            key.append(slice(None))
    if w == 'ellipsis':
        key = key[:max(1, nd - 1)]
        key.insert(rng.randint(0, len(key)), Ellipsis)
    if w == 'newaxis':
        key.insert(rng.randint(0, len(key)), np.newaxis)
    return (tuple(key) if len(key) != 1 or rng.random() < 0.5 else key[0]), w


@_mov('np_getitem')
def _getitem(rng, kind, force):
    s = rshape(rng)
    key, w = _rkey(rng, s)
    return {'shapes': {'a': s}, 'call': lambda mpc, S, X: mpc.np_getitem(X['a'], key) if rng_b else X['a'][key],
            'ref': lambda P: P['a'][key], 'desc': f'a{list(s)}[{key!r}]', 'key': (s, repr(key)), 'tags': ['getitem:' + w]}


rng_b = True


@op('np_update', ALLK)
def _update(rng, kind, force):
    s = rshape(rng, 3, 24, mindim=1, allow0=False)
    a = rvals(rng, kind, s)
    for _ in range(30):
        key, w = _rkey(rng, s)
        if w in ('basic', 'ellipsis', 'intarray'):
            break
    else:
        key, w = 0, 'basic'
    vs = np.empty(s)[key].shape
    mode = rng.choice(['secarr', 'secscalar', 'public'])
    v = rvals(rng, kind, vs if mode == 'secarr' else ())

    def call(mpc, S, X):
        val = X['v'] if mode == 'secarr' else mpc.np_getitem(X['v'], ()) if mode == 'secscalar' else S.field(int(v)) if kind != 'fxp' else None
        if val is None:
            val = mpc.np_getitem(X['v'], ())
        return mpc.np_update(X['a'], key, val)

    def ref(P):
        b = P['a'].copy()
        b[key] = P['v'] if kind != 'fxp' or True else v
        return b
    return {'mutates': True, 'inputs': {'a': a, 'v': v}, 'call': call, 'ref': ref,
            'desc': f'mpc.np_update(a{list(s)}, {key!r}, {mode} value{list(v.shape)})', 'key': (s, repr(key), mode, str(a.tolist()), str(v.tolist())),
            'tags': ['update:' + mode]}


# ---------------------------------------------------------------------------------------------
# miscellaneous protocols
# ---------------------------------------------------------------------------------------------
@op('np_unit_vector', ['int', 'fxp'])
def _unit_vector(rng, kind, force):
    n = rng.randint(1, 9)
    i = rng.randrange(n)
    a = np.array(float(i)) if kind == 'fxp' else np.array(i, dtype=object)
    e = np.zeros(n, dtype=float if kind == 'fxp' else object)
    e[i] = 1
    def call(mpc, S, X):
        X['index'] = mpc.np_getitem(X['a'], ())   # the secure scalar handed to the protocol: must open to i afterwards
        return mpc.np_unit_vector(X['index'], n)
    return {'inputs': {'a': a}, 'derived': {'index': a}, 'call': call,
            'ref': lambda P: e,
            'scalar': lambda mpc, S, L: np.array(mpc.unit_vector(L['a'][()], n), dtype=object),
            'desc': f'mpc.np_unit_vector(secret {i}, {n})', 'key': (n, i)}


@op('np_find', ['int', 'f101'])
def _find(rng, kind, force):
    s = rshape(rng, 2, 12, mindim=1, allow0=False) if rng.random() < 0.5 else rshape(rng, 4, 24, mindim=3, allow0=False)
    a = rvals(rng, kind, s, 'bits')
    if rng.random() < 0.2:
        a[...] = rng.randint(0, 1)
    bits = rng.random() < 0.7
    if not bits:
        a = rvals(rng, kind, s, 'tiny' if kind == 'int' else 'small')
    target = rng.randint(0, 1) if bits else int(a.reshape(-1)[rng.randrange(a.size)])
    axis = rng.choice([-1, -1, len(s) - 1, 0]) if len(s) == 2 else rng.randrange(-len(s), len(s))
    e = rng.choice(['default', -1, None])

    def call(mpc, S, X):
        kw = {} if e == 'default' else {'e': e}
        r = mpc.np_find(X['a'], target, axis=axis, bits=bits, **kw)
        return list(r) if e is None else r

    def ref(P):
        x = np.moveaxis(P['a'], axis, -1)
        n = x.shape[-1]
        p = modulus(kind)
        ix = np.empty(x.shape[:-1], dtype=object)
        nf = np.empty(x.shape[:-1], dtype=object)
        for i in np.ndindex(x.shape[:-1]):
            lane = [int(v) % p if p else int(v) for v in x[i]]
            t = target % p if p else target
            pos = lane.index(t) if t in lane else None
            nf[i] = int(pos is None)
            ix[i] = (n if e == 'default' else e) if pos is None and e is not None else (pos if pos is not None else None)
        if e is None:
            return [nf, ix]
        return ix

    def check(got, exp):
        if e is not None:
            return same(kind, got, exp)
        msg = same(kind, got[0], exp[0])
        if msg:
            return 'not-found flags: ' + msg
        g, x = to_np(got[1]), to_np(exp[1])
        if g.shape != x.shape:
            return f'index shape {g.shape} expected {x.shape}'
        for a_, b_ in zip(g.reshape(-1).tolist(), x.reshape(-1).tolist()):
            if b_ is not None and same(kind, a_, b_):
                return f'index {a_} expected {b_}'
        return None

    def scalar(mpc, S, L):
        x = np.moveaxis(L['a'], axis, -1)
        out = np.empty(x.shape[:-1], dtype=object)
        for i in np.ndindex(x.shape[:-1]):
            out[i] = mpc.find(list(x[i]), target, bits=bits) if e == 'default' else mpc.find(list(x[i]), target, bits=bits, e=e)
        return out
    return {'inputs': {'a': a}, 'call': call, 'ref': ref, 'check': check, 'scalar': scalar if e is not None else None,
            'desc': f'mpc.np_find(a{list(s)}, {target}, axis={axis}, bits={bits}, e={e})', 'key': (s, target, axis, bits, e, str(a.tolist()))}


@op('np_random_bits', ['int', 'fxp', 'f11', 'f101', 'fM', 'f256'])
def _random_bits(rng, kind, force):
    n = rng.choice([0, 1, 5, 24])
    signed = kind not in ('f256',) and rng.random() < 0.3

    def check(got, exp):
        g = to_np(got)
        if g.shape != (n,):
            return f'shape {g.shape} expected {(n,)}'
        p = modulus(kind)
        ok = {-1, 1} if signed else {0, 1}
        for v in g.reshape(-1).tolist():
            v = float(v) if kind == 'fxp' else int(v)
            if p and v > p // 2:
                v -= p
            if v not in ok:
                return f'value {v} is not in {sorted(ok)}'
        return None
    return {'inputs': {}, 'call': lambda mpc, S, X: mpc.np_random_bits(S, n, signed=signed), 'ref': lambda P: None, 'check': check,
            'desc': f'mpc.np_random_bits(stype, {n}, signed={signed})', 'key': (n, signed), 'nontrivial': n > 1}


@op('np_add_bits', ['int', 'f101'])
def _add_bits(rng, kind, force):
    s = rshape(rng, 1, 4, allow0=False)
    l = rng.randint(1, 8)
    a, b = rvals(rng, kind, s + (l,), 'bits'), rvals(rng, kind, s + (l,), 'bits')
    pubb = rng.random() < 0.5

    def ref(P):
        out = np.empty(s + (l,), dtype=object)
        for i in np.ndindex(s):
            x = sum(int(v) << j for j, v in enumerate(a[i])) + sum(int(v) << j for j, v in enumerate(b[i]))
            for j in range(l):
                out[i + (j,)] = (x >> j) & 1
        return out
    return {'inputs': {'a': a} if pubb else {'a': a, 'b': b},
            'call': lambda mpc, S, X: mpc.np_add_bits(X['a'], np.int8(b.astype(int)) if pubb else X['b']), 'ref': ref,
            'desc': f'mpc.np_add_bits(a{list(s + (l,))}, b{":public" if pubb else ""})', 'key': (s, l, pubb, str(a.tolist()), str(b.tolist()))}


@op('np_transcendental', ['fxp'])
def _transc(rng, kind, force):
    which = _pick(rng, force, ['log', 'log2', 'log10', 'exp2', 'exp', 'pow_float', 'rpow2', 'rpow3'])
    s = rshape(rng, 2, 6, allow0=False)
    if which.startswith('log') or which == 'pow_float':
        a = np.array([rng.randint(64, 2048) / 256 for _ in range(math.prod(s))]).reshape(s)
    elif which == 'rpow3':
        a = np.array([float(rng.randint(0, 6)) for _ in range(math.prod(s))]).reshape(s)
    else:
        a = np.array([rng.randint(-1024, 1024) / 256 for _ in range(math.prod(s))]).reshape(s)
    fs = {'log': np.log, 'log2': np.log2, 'log10': np.log10, 'exp2': np.exp2, 'exp': np.exp,
          'pow_float': lambda x: x ** 1.5, 'rpow2': lambda x: 2.0 ** x, 'rpow3': lambda x: 3.0 ** x}

    def call(mpc, S, X):
        if which == 'pow_float':
            return mpc.np_pow(X['a'], 1.5)
        if which == 'rpow2':
            return mpc.np_pow(2, X['a'])
        if which == 'rpow3':
            return mpc.np_pow(3, X['a'])
        return getattr(mpc, 'np_' + which)(X['a'])

    def check(got, exp):
        g, e = to_np(got), to_np(exp)
        if g.shape != e.shape:
            return f'shape {g.shape} expected {e.shape}'
        for x, y in zip(g.reshape(-1).tolist(), e.reshape(-1).tolist()):
            if not abs(float(x) - float(y)) <= 2**-9 * max(1.0, abs(float(y))):
                return f'{which}: value {float(x)} expected {float(y)} (relative tolerance 2^-9)'
        return None
    return {'inputs': {'a': a}, 'call': call, 'ref': lambda P: fs[which](a.astype(float)), 'check': check,
            'desc': f'np_{which}(a{list(s)})', 'key': (which, s, str(a.tolist())), 'tags': ['transcendental:' + which]}


# ---------------------------------------------------------------------------------------------
# pure NumPy vs Lean model lines (no secure computation)
# ---------------------------------------------------------------------------------------------
def numpy_model_lines(rng, count):
    req, impl = [], []

    def add(r, i):
        req.append(r)
        impl.append(i)
    for _ in range(count):
        k = rng.randrange(12)
        if k == 0:
            sa, sb = bpair(rng, incompatible=rng.random() < 0.2)
            try:
                r = shp(np.broadcast_shapes(sa, sb))
            except ValueError:
                r = 'ValueError'
            add(f'bshape {shp(sa)} {shp(sb)}', r)
        elif k == 1:
            sa, sb = bpair(rng)
            rs = np.broadcast_shapes(sa, sb)
            src = np.arange(math.prod(sa)).reshape(sa)
            add(f'bmap {shp(sa)} {shp(rs)}', ints(np.broadcast_to(src, rs).reshape(-1).tolist()))
        elif k == 2:
            s = rshape(rng, 3, 24)
            n = math.prod(s)
            if n:
                kk = rng.randrange(n)
                idx = np.unravel_index(kk, s) if s else ()
                add(f'unflat {shp(s)} {kk}', ints(idx))
                add(f'flat {shp(s)} {ints(idx)}', str(kk))
        elif k == 3:
            s = rshape(rng, 3, 24)
            perm = list(range(len(s)))
            rng.shuffle(perm)
            src = np.arange(math.prod(s)).reshape(s)
            if len(s) >= 2:
                add(f'tmap {shp(s)} {ints(perm)}', ints(src.transpose(perm).reshape(-1).tolist()))
            add(f'tmap {shp(s)} none', ints(src.T.reshape(-1).tolist()))
        elif k == 4:
            s = rshape(rng, 3, 24, mindim=1, allow0=False)
            ax = rng.randrange(-len(s), len(s))
            sh = rng.randint(-9, 9)
            src = np.arange(math.prod(s)).reshape(s)
            add(f'roll {shp(s)} {ax} {sh}', ints(np.roll(src, sh, axis=ax).reshape(-1).tolist()))
            add(f'roll {shp(s)} none {sh}', ints(np.roll(src, sh).reshape(-1).tolist()))
            add(f'flip {shp(s)} {ax}', ints(np.flip(src, axis=ax).reshape(-1).tolist()))
        elif k == 5:
            shapes, axis = _cat_shapes(rng, 1, 2)
            a = np.arange(math.prod(shapes[0])).reshape(shapes[0])
            b = np.arange(math.prod(shapes[1])).reshape(shapes[1]) + a.size
            c = np.concatenate((a, b), axis=axis)
            add(f'concat2 {shp(shapes[0])} {shp(shapes[1])} {axis}', f'{shp(c.shape)}|{ints(c.reshape(-1).tolist())}')
            add(f'npconcatshape {axis} {shp(shapes[0])} {shp(shapes[1])}', shp(c.shape))
        elif k == 6:
            s = rshape(rng, 2, 8)
            n = rng.randint(1, 3)
            ax = rng.randrange(-(len(s) + 1), len(s) + 1)
            add(f'npstackshape {shp(s)} {n} {ax}', shp(np.stack([np.empty(s)] * n, axis=ax).shape))
            add(f'stackshape {shp(s)} {n} {ax}', shp(np.stack([np.empty(s)] * n, axis=ax).shape))
        elif k == 7:
            sa, sb = _mm_shapes(rng)
            if rng.random() < 0.15:
                sb = tuple(list(sb[:-1]) + [sb[-1] + 1]) if len(sb) == 1 else tuple([sb[0] + 1] + list(sb[1:])) if len(sb) == 2 else sb
            try:
                r = np.matmul(np.empty(sa), np.empty(sb)).shape
                r = shp(r) if r != () else 'scalar'
            except ValueError:
                r = 'Error'
            add(f'mmshape {shp(sa)} {shp(sb)}', r)
        elif k == 8:
            n, kk, m = rng.randint(1, 4), rng.randint(1, 4), rng.randint(1, 4)
            a = np.array([rng.randint(-9, 9) for _ in range(n * kk)], dtype=object).reshape(n, kk)
            b = np.array([rng.randint(-9, 9) for _ in range(kk * m)], dtype=object).reshape(kk, m)
            add(f'mm2 {n} {kk} {m} {ints(a.reshape(-1).tolist())} {ints(b.reshape(-1).tolist())}',
                f'{n},{m}|{ints((a @ b).reshape(-1).tolist())}')
        elif k == 9:
            s = rshape(rng, 3, 24, mindim=1)
            axis = _axis(rng, len(s))
            keep = rng.random() < 0.5
            r = np.sum(np.empty(s), axis=axis, keepdims=keep).shape
            add(f"sumshape {shp(s)} {'none' if axis is None else ints(axis if isinstance(axis, tuple) else (axis,))} {int(keep)}", shp(r))
        elif k == 10:
            s = rshape(rng, 3, 24)
            n = math.prod(s)
            t = list(rshape(rng, 3, 24, allow0=(n == 0)))
            if t and rng.random() < 0.5:
                t[rng.randrange(len(t))] = -1
            try:
                r = shp(np.empty(s).reshape(t).shape)
            except ValueError:
                r = 'ValueError'
            if not (-1 in t and math.prod([d for d in t if d != -1]) == 0):
                add(f'reshape {n} {ints(t)}', r)
        else:
            sa, sb = bpair(rng)
            a = np.array([rng.randint(-9, 9) for _ in range(math.prod(sa))], dtype=object).reshape(sa)
            b = np.array([rng.randint(-9, 9) for _ in range(math.prod(sb))], dtype=object).reshape(sb)
            o = rng.choice(['add', 'sub', 'mul'])
            c = {'add': a + b, 'sub': a - b, 'mul': a * b}[o]
            c = np.asarray(c, dtype=object)
            add(f'map2 {o} {shp(sa)} {ints(a.reshape(-1).tolist())} {shp(sb)} {ints(b.reshape(-1).tolist())}',
                f'{shp(c.shape)}|{ints(c.reshape(-1).tolist())}')
    return req, impl


# ---------------------------------------------------------------------------------------------
# directed inputs for OPEN known findings (one per run) and fixed-defect regression inputs (corpus)
# ---------------------------------------------------------------------------------------------
@directed('x_fixed_np_det_secfld', 'f101')
def _x_det(rng, kind, force):
    a = np.array([[1, 2], [3, 5]], dtype=object)
    return {'inputs': {'a': a}, 'call': lambda mpc, S, X: mpc.np_det(X['a']), 'ref': lambda P: np.array(100, dtype=object),
            # repaired by 4a0365e: `secnum(detU)` with detU a Future raised TypeError in SecureFiniteField.__init__
            'desc': 'mpc.np_det(SecFld(101).array([[1,2],[3,5]]))', 'key': 'x_fixed_det'}


@directed('x_fixed_zero_size_mix32_64bit', 'int')
def _x_zero_mix(rng, kind, force):
    a = np.zeros((0, 2), dtype=object)
    return {'inputs': {'a': a}, 'call': lambda mpc, S, X: X['a'] * X['a'] + X['a'], 'ref': lambda P: a,
            # repaired by fe2a0ec: with option --mix32-64bit arrays are dealt / opened through the list-based random_split /
            # recombine, which read the type of the first element
            'case': {'mix32_64bit': True},
            'desc': 'mpc.input(SecInt(24).array(np.zeros((0, 2)))), a * a + a with option --mix32-64bit', 'key': 'x_fixed_zero_mix'}


@directed('x_fixed_pow_int_base_secint_array', 'int')
def _x_pow_secint(rng, kind, force):
    b = np.array([0, 1, 5], dtype=object)
    return {'inputs': {'b': b}, 'call': lambda mpc, S, X: 2 ** X['b'], 'ref': lambda P: np.array([1, 2, 32], dtype=object),
            # repaired by 30a9e36: the non-senders declared their placeholder with integral=True (TypeError for secint arrays)
            'desc': '2 ** secint.array([0, 1, 5])', 'key': 'x_fixed_pow_secint'}


@directed('x_fixed_np_trunc_fxp_negative', 'fxp')
def _x_trunc_neg(rng, kind, force):
    a = np.array([1.5, -2.25, -100.5, -0.0078125])
    b = np.array([0.5, 0.5, 100.5, 0.5])
    return {'inputs': {'a': a, 'b': b}, 'call': lambda mpc, S, X: X['a'] * X['b'], 'ref': lambda P: a * b, 'tol': 1.01 * ULP,
            # repaired by 3c924f8: np_trunc used l instead of l + f for fixed-point arrays (offset and mask too small by 2^f:
            # negative double-scaled products opened as negative numbers)
            'case': {'sec_param': 8},
            'desc': 'secfxp.array([1.5, -2.25, -100.5, -2^-7]) * secfxp.array([.5, .5, 100.5, .5]) with sec_param 8',
            'key': 'x_fixed_trunc_neg'}


@directed('x_np_unit_vector_secfld', 'f101')
def _x_uv(rng, kind, force):
    e = np.zeros(6, dtype=object)
    e[1] = 1
    return {'inputs': {'a': np.array(1, dtype=object)}, 'call': lambda mpc, S, X: mpc.np_unit_vector(mpc.np_getitem(X['a'], ()), 6),
            'ref': lambda P: e,
            # c = a - r + R*n is opened modulo p, so c % n is not (a - r) % n (the TODO in the code asks for a conversion)
            'finding_key_numpy': 'np_unit_vector_secfld_wraparound',
            'desc': 'mpc.np_unit_vector(SecFld(101)(1), 6)', 'key': 'x_uv'}


@directed('x_np_find_empty_axis', 'int')
def _x_find_empty(rng, kind, force):
    """np_find along an EMPTY axis: one index (the not-found value a.shape[axis] = 0) per lane, NumPy-shaped (1,) -- the code
    returns a scalar (open finding np_find_empty_axis_shape; the np_find generator keeps its search axis non-empty)"""
    a = np.zeros((1, 0), dtype=object)
    return {'inputs': {'a': a}, 'call': lambda mpc, S, X: mpc.np_find(X['a'], 1, axis=-1), 'ref': lambda P: np.array([0], dtype=object),
            'finding_key': 'np_find_empty_axis_shape', 'finding_key_numpy': 'np_find_empty_axis_shape',
            'desc': 'mpc.np_find(a[1,0], 1, axis=-1)', 'key': 'x_find_empty'}


@directed('x_fixed_1163c56', 'int')
def _x_fixed(rng, kind, force):
    """reproducers of the five defects fixed in commit 1163c56 (corpus replays)"""
    m2 = np.array([[3, 1, 2], [0, 5, 4]], dtype=object)
    col = np.array([[3], [1], [2]], dtype=object)
    a0 = np.array(5, dtype=object)

    def call(mpc, S, X):
        return [X['a0'] * 2, X['a0'] + S(1), mpc.np_amin(X['m'], axis=0, keepdims=True), mpc.np_amax(X['m'], axis=-2, keepdims=True),
                mpc.np_argmin(X['c'], axis=1), mpc.np_argmax(X['c'], axis=1, keepdims=True), mpc.np_rot90(X['m'], k=2),
                mpc.np_rot90(X['m'], k=1)]

    def ref(P):
        return [a0 * 2, a0 + 1, np.min(m2, axis=0, keepdims=True), np.max(m2, axis=-2, keepdims=True), np.argmin(col, axis=1),
                np.argmax(col, axis=1, keepdims=True), np.rot90(m2, k=2), np.rot90(m2, k=1)]
    return {'inputs': {'a0': a0, 'm': m2, 'c': col}, 'call': call, 'ref': ref, 'desc': 'reproducers of fix 1163c56', 'key': 'x_fixed'}


@directed('x_fixed_np_find_axis0_3d', 'int')
def _x_fixed_find3d(rng, kind, force):
    """np_find along the first axis of a 3-D array (repo fix 180e4a8: lanes came back transposed)"""
    a = np.array([[[0, 1, 0], [0, 0, 1]], [[1, 0, 0], [0, 1, 0]], [[0, 0, 0], [1, 0, 0]], [[0, 0, 1], [0, 0, 0]]], dtype=object)
    ref = np.where((a == 1).any(axis=0), (a == 1).argmax(axis=0), 4).astype(object)
    return {'inputs': {'a': a}, 'call': lambda mpc, S, X: mpc.np_find(X['a'], 1, axis=0), 'ref': lambda P: ref,
            'desc': 'mpc.np_find(a[4,2,3], 1, axis=0)', 'key': 'x_fixed_find3d'}


@directed('x_fixed_np_unit_vector_operand', 'fxp')
def _x_fixed_uv_operand(rng, kind, force):
    """np_unit_vector must leave its secure fixed-point index untouched (repo fix a5e5bc4: in-place shift of the caller's share)"""
    a = np.array(3.0)
    e = np.zeros(7)
    e[3] = 1

    def call(mpc, S, X):
        X['index'] = mpc.np_getitem(X['a'], ())
        return [mpc.np_unit_vector(X['index'], 7), mpc.np_unit_vector(X['index'], 7)]
    return {'inputs': {'a': a}, 'derived': {'index': a}, 'call': call, 'ref': lambda P: [e, e],
            'desc': 'mpc.np_unit_vector(secfxp 3, 7) twice on the same secure number', 'key': 'x_fixed_uv_operand'}


@directed('x_fixed_np_roll_secret_fxp', 'fxp')
def _x_fixed_roll_fxp(rng, kind, force):
    """np_roll with a secret fixed-point shift (repo fix 02ef684: result was scaled by 2^f)"""
    a = np.array([1.0, 2.5, -3.0])
    return {'inputs': {'a': a, 'k': np.array(1.0)}, 'call': lambda mpc, S, X: mpc.np_roll(X['a'], mpc.np_getitem(X['k'], ())),
            'ref': lambda P: np.roll(a, 1), 'desc': 'mpc.np_roll(secfxp array [1, 2.5, -3], secret shift 1)', 'key': 'x_fixed_roll_fxp'}


@directed('x_fixed_flip_of_diagonal', 'int')
def _x_fixed_flip_diag(rng, kind, force):
    """a NumPy function applied to the read-only view returned by np.diagonal (repo fix 72acc99)"""
    a = np.arange(9, dtype=object).reshape(3, 3)
    return {'inputs': {'a': a}, 'call': lambda mpc, S, X: mpc.np_flip(mpc.np_diagonal(X['a'])),
            'ref': lambda P: np.array([8, 4, 0], dtype=object), 'desc': 'np.flip(np.diagonal(a[3,3]))', 'key': 'x_fixed_flip_diag'}


@directed('x_fixed_field_det_row_swap', 'f11')
def _x_fixed_det_swap(rng, kind, force):
    """determinant of a permutation matrix over GF(11) (repo fix 377aa44: row swaps did not flip the sign)"""
    a = np.array([[0, 1], [1, 0]], dtype=object)

    def call(mpc, S, X):
        return [S(np.linalg.det(S.field.array(a.copy()))), S(np.linalg.det(S.field.array(np.array([[0, 0, 1], [1, 0, 0], [0, 1, 0]], dtype=object))))]
    return {'inputs': {'a': a}, 'call': call, 'ref': lambda P: [np.array(10, dtype=object), np.array(1, dtype=object)],
            'desc': 'np.linalg.det over GF(11) of [[0,1],[1,0]] and of a 3-cycle', 'key': 'x_fixed_det_swap'}


@directed('x_fixed_f256_mul_mix32_64bit', 'f256')
def _x_fixed_f256_mix(rng, kind, force):
    """GF(2^8) array product under --mix32-64bit (repo fix bf48baa: received input shares kept int entries)"""
    a = np.array([7, 3], dtype=object)
    b = np.array([9, 5], dtype=object)
    return {'inputs': {'a': a, 'b': b}, 'call': lambda mpc, S, X: X['a'] * X['b'],
            'ref': lambda P: np.array([_gf256_mul(7, 9), _gf256_mul(3, 5)], dtype=object), 'case': {'mix32_64bit': True},
            'desc': 'GF(2^8) arrays [7,3] * [9,5] with --mix32-64bit', 'key': 'x_fixed_f256_mix'}


@directed('x_fixed_empty_reductions', 'int')
def _x_fixed_empty_red(rng, kind, force):
    """np_prod / np_all / np_any over an empty axis (repo fixes a91215f, 4557617)"""
    a = np.zeros((0, 3), dtype=object)
    b = np.zeros((0, 1, 2), dtype=object)

    def call(mpc, S, X):
        return [mpc.np_prod(X['a'], axis=0), mpc.np_all(X['a']), mpc.np_any(X['a'], axis=0), mpc.np_all(X['b'], axis=(1,)),
                mpc.np_prod(X['b'], axis=(0, 1))]
    return {'inputs': {'a': a, 'b': b}, 'call': call,
            'ref': lambda P: [np.ones(3, dtype=object), np.array(1, dtype=object), np.zeros(3, dtype=object), np.ones((0, 2), dtype=object),
                              np.ones(2, dtype=object)],
            'desc': 'np_prod/np_all/np_any over empty axes of a[0,3], b[0,1,2]', 'key': 'x_fixed_empty_red'}


@directed('x_fixed_fxp_zero_size', 'fxp')
def _x_fixed_fxp0(rng, kind, force):
    """zero-size secure fixed-point arrays (repo fix e174957: the constructor raised ValueError)"""
    a = np.zeros((0, 2))
    return {'inputs': {'a': a}, 'call': lambda mpc, S, X: [X['a'] + X['a'], mpc.np_sum(X['a'], axis=0), mpc.np_prod(X['a'], axis=0)],
            'ref': lambda P: [a + a, np.zeros(2), np.ones(2)], 'desc': 'SecFxp array of shape (0,2): a+a, sum, prod over axis 0',
            'key': 'x_fixed_fxp0'}


@directed('x_fixed_divide_scalar', 'f101')
def _x_fixed_div(rng, kind, force):
    a = np.array([3, 4], dtype=object)
    return {'inputs': {'a': a}, 'call': lambda mpc, S, X: X['a'] / S(2), 'ref': lambda P: np.array([52, 2], dtype=object),
            'desc': 'SecFld(101).array([3,4]) / SecFld(101)(2)', 'key': 'x_fixed_div'}


@directed('x_fixed_np_is_zero_public_0d', 'int')
def _x_izp(rng, kind, force):
    return {'inputs': {'a': np.array(0, dtype=object)}, 'call': lambda mpc, S, X: _Awaited(mpc.np_is_zero_public(X['a'])),
            'ref': lambda P: np.array(1, dtype=object),
            'desc': 'mpc.np_is_zero_public(SecInt(24).array(np.array(0)))', 'key': 'x_izp'}
