"""Directed regression inputs for defects repaired in /repo (known_findings.json, `fixed`), shared by the property checks.

Every case is the failing input of a repaired defect, run on the real code in the simulator (harness/simnet.py); the check of
the owning property runs its cases on every run (check.py calls `regress_lib.check(ctx, pid)` after the module's own run), so
that the defect is reported with this input if it ever returns.  Cases are small programs `async prog(mpc) -> observed`
together with the expected value; values are compared exactly unless a tolerance is given.
"""
import os
import sys

sys.path.insert(0, os.path.dirname(os.path.abspath(__file__)))
import simnet  # noqa: E402
from simnet import SimNet, Scheduler, Deadlock, PartyError  # noqa: E402

try:
    import numpy as np
except ImportError:  # pragma: no cover
    np = None

CASES = []   # (property, name, commit, (m, t, no_prss), needs_numpy, prog, expected, tol)


def case(prop, name, commit, cfg=(1, 0, False), numpy=False, expected=None, tol=0.0):
    def deco(f):
        CASES.append((prop, name, commit, cfg, numpy, f, expected, tol))
        return f
    return deco


def _ints(xs):
    return [int(v) for v in xs]


# ---------------------------------------------------------------------------------------------------- C30: bit-level blocks
@case('C30', 'find with a SECRET target over GF(2^8)', 'a36002e', expected=[3, 3])
async def _(mpc):
    s = mpc.SecFld(2 ** 8)
    x = [s(0), s(0), s(0), s(1)]
    return _ints(await mpc.output([mpc.find(x, s(1)), mpc.find(x, 1)]))


@case('C30', 'add_bits over GF(2^8): 3 + 1 = 4', 'a36002e', expected=[0, 0, 1])
async def _(mpc):
    s = mpc.SecFld(2 ** 8)
    return _ints(await mpc.output(mpc.add_bits([s(1), s(1), s(0)], [s(1), s(0), s(0)])))


@case('C30', 'add_bits over GF(2^8), 3 parties', 'a36002e', cfg=(3, 1, False), expected=[1, 1, 0, 1])
async def _(mpc):
    s = mpc.SecFld(2 ** 8)
    x = mpc.input([s(1), s(0), s(1), s(0)], senders=0)
    return _ints(await mpc.output(mpc.add_bits(x, [s(0), s(1), s(1), s(0)])))    # 5 + 6 = 11


@case('C30', 'to_bits(secfxp, l) for bit_length + sec_param < l <= bit_length + frac_length', '4d3b9c6', expected=[95, 96, 1, 1])
async def _(mpc):
    secfxp = mpc.SecFxp(64, 32)
    b95 = await mpc.output(mpc.to_bits(secfxp(1.5), 95))
    b96 = await mpc.output(mpc.to_bits(secfxp(1.5), 96))
    return [len(b95), len(b96), int(b95[31]), int(b96[32])]        # 1.5 * 2^32 = bits 31 and 32


@case('C30', 'from_bits and to_bits round trip over GF(2^8) (binary fields recombine with shifts)', 'ce32d40', expected=[0xa5, 1, 0, 1])
async def _(mpc):
    s = mpc.SecFld(2 ** 8)
    bits = mpc.to_bits(s(0xa5))
    return _ints(await mpc.output([mpc.from_bits(bits)] + bits[:3]))


@case('C30', 'from_bits over a prime field lifted to an extension field (SecFld(3), 3 parties)', 'ce32d40', cfg=(3, 1, False),
      expected=[2, 1, 0])
async def _(mpc):
    s = mpc.SecFld(3)
    return _ints(await mpc.output([mpc.from_bits([s(0), s(1)]), mpc.from_bits([s(1), s(0)]), mpc.from_bits([s(0)])]))


# ---------------------------------------------------------------------------------------------------- C33: random functions
@case('C33', 'randrange / sample over a lifted prime field stay in the base field (SecFld(3), 3 parties)', 'ce32d40',
      cfg=(3, 1, False), expected=True)
async def _(mpc):
    import mpyc.random as mr
    s = mpc.SecFld(3)
    vals = _ints(await mpc.output([mr.randrange(s, 3) for _ in range(24)]))
    smp = _ints(await mpc.output(mr.sample(s, range(3), 2)))
    return all(0 <= v < 3 for v in vals + smp) and len(set(vals)) == 3 and len(set(smp)) == 2


# ---------------------------------------------------------------------------------------------------- C04: secure fields
@case('C04', 'bitwise and / or / xor of a binary-field element with a PUBLIC operand on either side', '79de345',
      expected=[1, 7, 6, 1, 7, 6, 1, 7])
async def _(mpc):
    s = mpc.SecFld(2 ** 8)
    f5, f3 = s.field(5), s.field(3)
    return _ints(await mpc.output([5 & s(3), 5 | s(3), 5 ^ s(3), s(5) & 3, s(5) | 3, s(5) ^ 3, f5 & s(3), s(5) | f3]))


@case('C04', 'lifted prime field: public operands from the base field', '9af669d', cfg=(3, 1, False),
      expected=[1, 1, 0, 0, 1, 1, 1, 1, 1, 0])
async def _(mpc):
    s = mpc.SecFld(3)
    x = mpc.input(s(2), senders=0)
    c = await mpc.output(x)                        # element of GF(3)
    return _ints(await mpc.output([x + c, c + x, x - c, c - x, x * c, c * x, x / c, c / x, x == c, x != c]))


@case('C04', 'lifted prime field: secure arrays with public ints outside range(q)', '9af669d', cfg=(3, 1, False), numpy=True,
      expected=[[2, 1, 0], [2, 0, 1], [1, 2, 0]])
async def _(mpc):
    s = mpc.SecFld(3)
    a = mpc.input(s.array(np.array([1, 2, 0])), senders=0)
    r = [await mpc.output(a * 5), await mpc.output(a + 4), await mpc.output(s.array(np.array([4, 5, 6])))]
    return [_ints(v.value.reshape(-1).tolist()) if hasattr(v, 'value') else _ints(v) for v in r]


# ---------------------------------------------------------------------------------------------------- C05: secure floats
@case('C05', 'division by values whose significand is exactly 1/2 or 1 (reciprocal must stay normalized)', 'fd7109b',
      expected=[0.25, 0.5, -1.0, -0.25, 0.5], tol=1e-4)
async def _(mpc):
    secflt = mpc.SecFlt()
    out = None
    for _ in range(12):          # the unnormalized result appeared in about 10% of the divisions
        out = [float(v) for v in await mpc.output([1 / (secflt(3) + secflt(1)), secflt(1) / secflt(2.0000001),
                                                   secflt(-8) / (secflt(5) + secflt(3)), secflt(-4.0).reciprocal(),
                                                   2.0 / secflt(4.0)])]
    return out


@case('C05', 'division by powers of two with 3 parties', 'fd7109b', cfg=(3, 1, False), expected=[0.25, -0.125], tol=1e-4)
async def _(mpc):
    secflt = mpc.SecFlt()
    x = mpc.input([secflt(4.0), secflt(-8.0)], senders=0)
    out = None
    for _ in range(4):
        out = [float(v) for v in await mpc.output([1 / x[0], 1 / x[1]])]
    return out


# ---------------------------------------------------------------------------------------------------- C29: sorting / selection
@case('C29', 'sorted / min / max / min_max / argmin of secure floats of very different magnitude', '8c9af01',
      expected=[[1.0, 1e8], 1.0, 1e8, [1.0, 1e8], [1, 1.0], [-1e10, 0.0, 1e-10, 5.5, 1e10]], tol=1e-6)
async def _(mpc):
    secflt = mpc.SecFlt()
    x = [secflt(1e8), secflt(1.0)]
    y = [secflt(1e10), secflt(1e-10), secflt(-1e10), secflt(0.0), secflt(5.5)]
    i, mn = mpc.argmin(x)
    return [[float(v) for v in await mpc.output(mpc.sorted(x))], float(await mpc.output(mpc.min(x))),
            float(await mpc.output(mpc.max(x))), [float(v) for v in await mpc.output(list(mpc.min_max(x)))],
            [int(await mpc.output(i)), float(await mpc.output(mn))], [float(v) for v in await mpc.output(mpc.sorted(y))]]


@case('C29', 'sorted secure floats, 3 parties', '8c9af01', cfg=(3, 1, False), expected=[0.1, 3.0, 2.0 ** 20], tol=1e-6)
async def _(mpc):
    secflt = mpc.SecFlt()
    x = mpc.input([secflt(2.0 ** 20), secflt(0.1), secflt(3.0)], senders=0)
    return [float(v) for v in await mpc.output(mpc.sorted(x))]


# ---------------------------------------------------------------------------------------------------- C37: secure arrays
@case('C37', 'joining a secure fixed-point array with a public array', '0e995ea', numpy=True,
      expected=[[1.0, 2.0, 3.0, 7.0], [1.0, 2.0, 3.0, 0.5], [[1.0, 2.0, 3.0], [4.0, 5.0, 6.0]], [[1.0, 4.0], [2.0, 5.0], [3.0, 6.0]],
                [0.75, 1.5, 2.25, 5.25]], tol=2 ** -15)
async def _(mpc):
    secfxp = mpc.SecFxp(32, 16)
    a = secfxp.array(np.array([1.0, 2.0, 3.0]))
    c = np.concatenate((a, np.array([7])))
    return [(await mpc.output(c)).tolist(), (await mpc.output(np.hstack((a, np.array([0.5]))))).tolist(),
            (await mpc.output(np.vstack((a, np.array([4, 5, 6]))))).tolist(),
            (await mpc.output(np.column_stack((a, np.array([4, 5, 6]))))).tolist(),
            (await mpc.output(c * secfxp(0.75))).tolist()]


@case('C37', 'np.sum with a fractional initial value, then a product', 'aacb531', numpy=True, expected=[3.5, [1.05, 5.95]], tol=2 ** -13)
async def _(mpc):
    secfxp = mpc.SecFxp(32, 16)
    x = secfxp.array(np.array([1.0, 2.0]))
    s = np.sum(x, initial=0.5)
    return [float(await mpc.output(s)), (await mpc.output(s * secfxp.array(np.array([0.3, 1.7])))).tolist()]


@case('C37', 'secure fixed-point array times a public bool mask', '8ef7539', numpy=True, expected=[1.5, 0.0, 3.0])
async def _(mpc):
    secfxp = mpc.SecFxp(32, 16)
    a = secfxp.array(np.array([1.5, -2.25, 3.0]))
    return (await mpc.output(a * np.array([True, False, True]))).tolist()


@case('C37', 'public array compared with a secure array (operands in the written order)', '8934548', numpy=True,
      expected=[[1, 0, 0], [1, 0, 1], [0, 1, 0], [0, 1, 1], [1, 3, -4], [3, 5, -4]])
async def _(mpc):
    secint = mpc.SecInt(16)
    p, s = np.array([1, 5, -4]), secint.array(np.array([3, 3, -4]))
    r = [p < s, p <= s, p > s, p >= s, mpc.np_minimum(p, s), mpc.np_maximum(p, s)]
    return [_ints((await mpc.output(v)).tolist()) for v in r]


@case('C37', 'public array compared with a secure fixed-point array, 3 parties', '8934548', cfg=(3, 1, False), numpy=True,
      expected=[[1, 0, 0], [0, 1, 1]])
async def _(mpc):
    secfxp = mpc.SecFxp(32, 16)
    s = mpc.input(secfxp.array(np.array([3.5, 3.5, -4.0])), senders=0)
    p = np.array([1.25, 5.0, -4.0])
    return [_ints((await mpc.output(p < s)).tolist()), _ints((await mpc.output(p >= s)).tolist())]


@case('C37', 'np.dstack of secure fixed-point arrays has a declared integral attribute', '7c5fe5c', numpy=True,
      expected=[False, [[[1.5, 1.5]], [[2.0, 2.0]]]])
async def _(mpc):
    secfxp = mpc.SecFxp(32, 16)
    z = secfxp.array(np.array([[1.5], [2.0]]))
    d = np.dstack((z, z))
    return [d.integral, (await mpc.output(np.copy(d))).tolist()]


@case('C37', 'np_to_bits(a, 0) over a prime field', '4d3b9c6', numpy=True, expected=[2, 2, 0])
async def _(mpc):
    a = mpc.SecFld(101).array(np.array([[5, 6], [7, 100]]))
    return list((await mpc.output(mpc.np_to_bits(a, 0))).shape)


@case('C37', 'np_find with a secret target and np_add_bits over GF(2^8)', 'a36002e', numpy=True, expected=[[2, 4, 0], [0, 0, 1]])
async def _(mpc):
    s = mpc.SecFld(2 ** 8)
    a = s.array(np.array([[0, 0, 1, 0], [0, 0, 0, 0], [1, 1, 0, 0]]))
    r = await mpc.output(mpc.np_find(a, s(1)))
    b = await mpc.output(mpc.np_add_bits(s.array(np.array([1, 1, 0])), s.array(np.array([1, 0, 0]))))
    return [_ints(r.value.tolist()), _ints(b.value.tolist())]


# ---------------------------------------------------------------------------------------------------- C38: secure polynomials
@case('C38', 'secure polynomial division over GF(2^64+13)', '9ea087c', numpy=True, expected=True)
async def _(mpc):
    from mpyc import gfpx, secpols
    secfld = mpc.SecFld(min_order=2 ** 64)
    p = secfld.field.modulus
    poly = gfpx.GFpX(p)
    a, b = poly([5, 7, 11, 1]), poly([3, 1])
    f, g = secpols.secpoly(a, sectype=secfld), secpols.secpoly(b, sectype=secfld)
    q, r = await mpc.output(f // g), await mpc.output(f % g)
    pw = await mpc.output(secpols.secpoly.powmod(f, 5, g))
    return q == a // b and r == a % b and pw == poly.powmod(a, 5, b)


@case('C38', 'secure polynomial constructed from a GF(2)[x] polynomial', '13e0c12', numpy=True, expected=['x', 'x+1'])
async def _(mpc):
    from mpyc import gfpx, secpols
    poly = gfpx.GFpX(2)
    f, g = secpols.secpoly(poly([1, 1])), secpols.secpoly(poly([1]))
    return [str(await mpc.output(f + g)), str(await mpc.output(f * g))]


# ---------------------------------------------------------------------------------------------------- C01: secure integers
@case('C01', 'secure % // divmod with a NEGATIVE public divisor', '6154ebc', expected=[-1, -4, 0, -1, 128, -5, -15])
async def _(mpc):
    secint = mpc.SecInt(8)
    q, r = divmod(secint(100), -7)
    return _ints(await mpc.output([secint(7) % -2, secint(7) // -2, secint(0) % -4, secint(-7) % -3, secint(-128) // -1, r, q]))


@case('C01', 'negative public divisor, 3 parties, PRSS off', '6154ebc', cfg=(3, 1, True), expected=[-1, -4])
async def _(mpc):
    secint = mpc.SecInt(8)
    x = mpc.input(secint(7), senders=0)
    return _ints(await mpc.output([x % -2, x // -2]))


@case('C01', 'lcm whose value exceeds the bit length of the operands', '37b49c0', expected=[700, 16256, 9900, 48])
async def _(mpc):
    secint = mpc.SecInt(8)
    return _ints(await mpc.output([mpc.lcm(secint(7), secint(100)), mpc.lcm(secint(-128), secint(127)), mpc.lcm(secint(100), secint(99)),
                                   mpc.lcm(secint(16), secint(24))]))


@case('C01', 'sum / prod / all of a tuple', '215b581', expected=[6, 6, 1])
async def _(mpc):
    secint = mpc.SecInt(8)
    t = (secint(1), secint(2), secint(3))
    return _ints(await mpc.output([mpc.sum(t), mpc.prod(t), mpc.all((secint(1), secint(1), secint(1)))]))


@case('C01', 'secure integer compared with a secure array (scalar first)', '552097a', numpy=True,
      expected=[[0, 1, 0], [0, 1, 1], [0, 0, 1], [1, 1, 0], [1, 0, 1], [1, 0, 0]])
async def _(mpc):
    secint = mpc.SecInt(8)
    a, s = secint.array(np.array([1, 5, 3])), secint(3)
    return [_ints((await mpc.output(v)).tolist()) for v in (s < a, s <= a, s == a, s != a, s >= a, s > a)]


# ---------------------------------------------------------------------------------------------------- C07 / C19: output, transfer
@case('C07', 'transfer with a dict graph that lists only the senders', '158d9c4', cfg=(3, 1, False),
      expected=[[['from', 1]], [], [['from', 1]]])
async def _(mpc):
    r = await mpc.transfer(['from', mpc.pid], sender_receivers={1: [0, 2]})
    all_ = await mpc.transfer(r)          # everybody learns what everybody obtained
    return all_


@case('C19', 'transfer with a dict graph: a party that is no key of the dict sends nothing and raises nothing', '158d9c4',
      cfg=(3, 1, False), expected=[[], ['x1'], []])
async def _(mpc):
    r = await mpc.transfer('x' + str(mpc.pid), sender_receivers={1: [1]})
    return await mpc.transfer(r)


@case('C19', 'output of secure group elements / secure floats to non-receivers: one None per element', '39fe191', cfg=(3, 1, False),
      expected=[2, 2, 1])
async def _(mpc):
    from mpyc import fingroups as fg
    secgrp = mpc.SecGrp(fg.EllipticCurve('Ed25519', 'extended'))
    g = secgrp.group.generator
    out = await mpc.output([secgrp(g), secgrp(g ^ 2)], receivers=[2])
    sym = mpc.SecGrp(fg.SymmetricGroup(5))
    out2 = await mpc.output([sym(sym.group.identity), sym(sym.group.identity)], receivers=[2])
    flt = await mpc.output(mpc.SecFlt()(2.5), receivers=[])
    n0 = await mpc.transfer([len(out), len(out2), 1 if flt is None else 0], senders=0)
    return n0


# ---------------------------------------------------------------------------------------------------- C15: PRSS
@case('C15', 'list and array variants of the PRSS zero sharing agree (t = 2)', 'd7e87af', numpy=True, expected=True)
async def _(mpc):
    from mpyc import thresha, finfields
    import secrets as _secrets
    import itertools
    F = finfields.GF(2 ** 61 - 1)
    m, t = 5, 2
    keys = {S: bytes([sum(S)]) * 16 for S in itertools.combinations(range(m), m - t)}
    ok = True
    for i in range(m):
        prfs = {S: thresha.PRF(k, F.order) for S, k in keys.items() if i in S}
        a = thresha.pseudorandom_share_zero(F, m, i, prfs, b'uci', 3)
        b = thresha.np_pseudorandom_share_0(F, m, i, prfs, b'uci', 3)
        ok = ok and [int(v) % F.order for v in a] == [int(v) % F.order for v in b.value.tolist()]
    return ok


@case('C15', 'PRFs cached before the keys of a peer arrive are rebuilt (PRSS used before mpc.start())', 'e70af1b', cfg=(3, 1, False),
      expected=True)
async def _(mpc):
    f1 = mpc.prfs(2)
    mpc._prss_keys_from_peer((mpc.pid + 1) % 3, bytes(16 * 8))     # what the handshake does when a peer's keys arrive
    return mpc.prfs(2) is not f1


# ---------------------------------------------------------------------------------------------------- C35: barriers / shutdown
@case('C35', 'a coroutine call that fails at argument binding does not leak the nesting level', 'bf07c86', cfg=(3, 1, False),
      expected=[0, 5])
async def _(mpc):
    secint = mpc.SecInt(16)
    a = mpc.input(secint(5), senders=0)
    await mpc.gather(a)
    before = mpc._pc_level
    for _ in range(2):
        try:
            mpc.output(a, bogus=1)
        except TypeError:
            pass
    leaked = mpc._pc_level - before
    await mpc.barrier()
    return [leaked, int(await mpc.output(a))]


# ---------------------------------------------------------------------------------------------------- C39: configuration
@case('C39', 'lifted field: secure arrays accept arrays and elements of the base field', 'a8d57bd', cfg=(3, 1, False), numpy=True,
      expected=[[0, 2, 1], [0, 0, 0], [0, 1, 2]])
async def _(mpc):
    S = mpc.SecFld(3)
    A = mpc.input(S.array(np.array([0, 1, 2])), senders=0)
    out = await mpc.output(A)
    F = type(out).field
    r = [A * F(2), A + out * 2, S.array(out)]
    return [_ints((await mpc.output(v)).value.tolist()) for v in r]


@case('C39', 'assigning mpc.threshold with 2t >= m is refused', 'ad822e5', cfg=(3, 1, False), expected=['ValueError', 1])
async def _(mpc):
    try:
        mpc.threshold = 2
        r = 'accepted'
    except ValueError:
        r = 'ValueError'
    return [r, mpc.threshold]


# ---------------------------------------------------------------------------------------------------- C22
@case('C37', 'output of a zero-size secure array over a lifted field', 'c66c881', cfg=(3, 1, False), numpy=True, expected=[0])
async def _(mpc):
    z = mpc.SecFld(3).array(np.array([], dtype=object))
    return list((await mpc.output(z)).shape)


# ---------------------------------------------------------------------------------------------------- OPEN findings
# Reproducers of the OPEN entries of known_findings.json that were reported by the defect-hunting sub-agents: `expected` is what
# the property promises; as long as the defect is there the case fails and the owning check prints KNOWN-FINDING for its key.
def open_case(prop, key, name, cfg=(1, 0, False), numpy=False, expected=None, tol=0.0, max_steps=3_000_000):
    def deco(f):
        CASES.append((prop, name, 'open:' + key, cfg, numpy, f, expected, tol))
        OPEN_STEPS[name] = max_steps
        return f
    return deco


OPEN_STEPS = {}


@open_case('C03', 'C03-np-pow-int-base-negative-exponent', '2 ** (secure fixed-point array with negative integral entries)', numpy=True,
           expected=[False, [0.5, 4.0]])
async def _(mpc):
    secfxp = mpc.SecFxp(32, 16)
    r = 2 ** secfxp.array(np.array([-1.0, 2.0]))
    return [bool(r.integral), (await mpc.output(r)).tolist()]


@open_case('C02', 'C02-double-precision-constants', 'SecFxp(128,64)(1000) / 3 within 16(1+|x|) units', expected=True)
async def _(mpc):
    from fractions import Fraction
    secfxp = mpc.SecFxp(128, 64)
    v = await mpc.output(secfxp(1000) / 3, raw=True)
    return abs(int(v) - Fraction(1000 * 2 ** 64, 3)) <= 16 * 1001


@open_case('C05', 'C05-double-precision-boundary', 'SecFlt(128): 2^100 + 1 differs from 2^100', expected=[0.0, 1.0])
async def _(mpc):
    secflt = mpc.SecFlt(128)
    x, y = secflt(2 ** 100 + 1), secflt(2 ** 100)
    return [float(await mpc.output(x == y)), float(await mpc.output(x > y))]


@open_case('C33', 'C33-derangement-fixed-point-rejection', 'random_derangement of small non-integral fixed-point values terminates',
           expected=True, max_steps=120_000)
async def _(mpc):
    import mpyc.random as mr
    secfxp = mpc.SecFxp(32, 16)
    x = [0.0, 0.001, 0.002]
    d = [round(float(v), 3) for v in await mpc.output(mr.random_derangement(secfxp, x))]
    return sorted(d) == x and all(a != b for a, b in zip(d, x))


@case('C33', 'shuffle / sample of empty and of mixed public/secret lists', 'b0dbb64', expected=[[], [], 2])
async def _(mpc):
    import mpyc.random as mr
    secint = mpc.SecInt(16)
    e = []
    mr.shuffle(secint, e)
    return [e, mr.sample(secint, [], 0), len(await mpc.output(mr.sample(secint, [secint(1), 2, 3], 2)))]


@case('C04', 'to_bits on a signed prime field', 'dc97b4a', expected=[[1, 0, 1], 5])
async def _(mpc):
    S = mpc.SecFld(7, signed=True)
    b = mpc.to_bits(S(5))
    try:
        return [_ints(await mpc.output(b)), int(await mpc.output(mpc.from_bits(b))) % 7]
    finally:
        mpc.SecFld(7)      # restore the (shared) signedness of GF(7)


@open_case('C04', 'C04-signedness-shared-field-class', 'creating SecFld(p) does not change values of SecFld(p, signed=True)', expected=[-2, -2])
async def _(mpc):
    S1 = mpc.SecFld(263, signed=True)
    a = S1(261)
    before = int(await mpc.output(a))
    mpc.SecFld(263)
    return [before, int(await mpc.output(a))]


@open_case('C06', 'C06-large-field-to-small-int', 'convert(SecFld(2^61-1)(5), SecInt(32)) with 3 parties', cfg=(3, 1, False), expected=[5, 5, 5])
async def _(mpc):
    S = mpc.SecFld(2 ** 61 - 1)
    x = mpc.input(S(5), senders=0)
    return [int(await mpc.output(mpc.convert(x, mpc.SecInt()))) for _ in range(3)]


@open_case('C38', 'C38-length-bound-at-least-p', 'secure polynomial of length p over GF(5): floor division', numpy=True, expected=True)
async def _(mpc):
    from mpyc import gfpx, secpols
    S = mpc.SecFld(5)
    poly = gfpx.GFpX(5)
    f = secpols.secpoly(np.array([1, 2, 0, 0, 3], dtype=object), sectype=S)
    g = secpols.secpoly(np.array([2], dtype=object), sectype=S)
    return (await mpc.output(f // g)) == poly([1, 2, 0, 0, 3]) // poly([2])


@open_case('C38', 'C38-lifted-field', 'secure polynomial over a lifted prime field (SecFld(3), 3 parties)', cfg=(3, 1, False), numpy=True,
           expected='2x+1')
async def _(mpc):
    from mpyc import gfpx, secpols
    f = secpols.secpoly(gfpx.GFpX(3)([1, 2]), sectype=mpc.SecFld(3))
    return str(await mpc.output(f))


@case('C30', "find(x, 1, f=lambda i: 2**-i) on secure fixed-point bits (the docstring's example), also via cs_f", 'c8a6098',
      expected=[0.25, 0.25, [2.0, 0.25]])
async def _(mpc):
    secfxp = mpc.SecFxp(16, 8)
    x = [secfxp(0), secfxp(0), secfxp(1), secfxp(0)]
    r = [float(await mpc.output(mpc.find(x, 1, f=lambda i: 2 ** -i))),
         float(await mpc.output(mpc.find(x, 1, cs_f=lambda b, i: (2 - b) * 2 ** -(i + 1))))]
    return r + [[float(v) for v in await mpc.output(list(mpc.find(x, 1, f=lambda i: (i, 2 ** -i))))]]


@case('C30', 'find with fractional f, 3 parties, not found', 'c8a6098', cfg=(3, 1, False), expected=[0.0625, 1])
async def _(mpc):
    secfxp = mpc.SecFxp(16, 8)
    x = [secfxp(0)] * 4
    nf, y = mpc.find(x, 1, e=None, f=lambda i: 2 ** -i)
    return [float(await mpc.output(mpc.find(x, 1, f=lambda i: 2 ** -i))), int(await mpc.output(nf))]


@open_case('C29', 'C29-rows-of-mixed-types', 'min of rows with entries of different secure types', expected=[1, 2.25])
async def _(mpc):
    secint, secfxp = mpc.SecInt(16), mpc.SecFxp(32, 16)
    rows = [[secint(3), secfxp(-1.5)], [secint(1), secfxp(2.25)], [secint(2), secfxp(-0.5)]]
    r = mpc.min(rows, key=lambda r_: r_[0])
    return [int(await mpc.output(r[0])), float(await mpc.output(r[1]))]


@open_case('C31', 'C31-remove-not-awaited', 'seclist.remove(v) followed by append, not awaited, 3 parties', cfg=(3, 1, False),
           expected=[3, [1, 3, 4, 5]])
async def _(mpc):
    from mpyc.seclists import seclist
    secint = mpc.SecInt(16)
    s = seclist([1, 2, 3, 4], secint)
    s.remove(2)
    n = len(s)
    s.append(5)
    return [n, _ints(await mpc.output(list(s)))]


@open_case('C31', 'C31-field-lists-not-found-marker', 'seclist over GF(2^8): count / contains / index of a present value', expected=[2, 1, 1])
async def _(mpc):
    from mpyc.seclists import seclist
    fld = mpc.SecFld(2 ** 8)
    s = seclist([10, 11, 12, 11], fld)
    return _ints(await mpc.output([s.count(11), s.contains(11), s.find(11)]))


@open_case('C31', 'C31-sort-key-not-stable', 'seclist.sort(key=a*a) keeps the order of ties like list.sort', expected=[1, -1, -2, 2])
async def _(mpc):
    from mpyc.seclists import seclist
    s = seclist([-2, 2, 1, -1], mpc.SecInt(16))
    s.sort(key=lambda a: a * a)
    return _ints(await mpc.output(list(s)))


@open_case('C37', 'C37-list-of-arrays-io', 'mpc.output of a list of two secure arrays', numpy=True, expected=2)
async def _(mpc):
    secint = mpc.SecInt(16)
    a, b = secint.array(np.array([1, 2])), secint.array(np.array([3, 4]))
    return len(await mpc.output([a, b]))


@open_case('C37', 'C37-split-with-indices', 'np.split with split indices', numpy=True, expected=[[1, 3], [1, 3], [2, 3]])
async def _(mpc):
    secint = mpc.SecInt(16)
    a = secint.array(np.arange(12).reshape(4, 3))
    parts = np.split(a, np.array([1, 2]))
    return [list((await mpc.output(p)).shape) for p in parts]


@case('C27', 'HCDivisorCL(value) with the default check=True', 'b89c4b7', expected=True)
async def _(mpc):
    from mpyc import fingroups as fg
    H = fg.HyperellipticCurve('kummer1271')
    return H(H.generator.value) == H.generator


@open_case('C27', 'C27-generator-order', 'declared order = order of the generator (QuadraticResidues(p=31), ClassGroup(Delta=-431))',
           expected=[15, 21])
async def _(mpc):
    from mpyc import fingroups as fg

    def order_of(g, bound):
        x, n = g, 1
        while x != type(g).identity and n < bound:
            x, n = x @ g, n + 1
        return n
    Q, C = fg.QuadraticResidues(p=31), fg.ClassGroup(Delta=-431)
    return [order_of(Q.generator, 100) if Q.order == 15 else -1, order_of(C.generator, 100) if C.order == 21 else -1]


@case('C27', 'SchnorrGroup.decode(*encode(m)): m itself, or ValueError beyond the search bound (never another message)', 'df01afd',
      expected=[1000, 'ValueError'])
async def _(mpc):
    from mpyc import fingroups as fg
    G = fg.SchnorrGroup(l=64, n=32)
    try:
        big = int(G.decode(*G.encode(5000)))
    except ValueError:
        big = 'ValueError'
    return [int(G.decode(*G.encode(1000))), big if big in (5000, 'ValueError') else big]


@open_case('C28', 'C28-kummer-identity-operand', "SecGrp(kummer1271): identity operand of @, secret base with an even secret exponent",
           expected=[True, True])
async def _(mpc):
    from mpyc import fingroups as fg
    group = fg.HyperellipticCurve('kummer1271')
    secgrp = mpc.SecGrp(group)
    g = group.generator
    a = await mpc.output(secgrp.identity @ secgrp(g))
    b = await mpc.output(secgrp(g) ^ mpc.SecInt(8)(2))
    return [a == g, b == (g ^ 2)]


@case('C28', 'secgrp.repeat(secret a, public GF(q) exponent)', '433272e', expected=True)
async def _(mpc):
    from mpyc import fingroups as fg, finfields
    group = fg.QuadraticResidues(l=8)
    secgrp = mpc.SecGrp(group)
    g = group.generator
    r = await mpc.output(secgrp.repeat(secgrp(g), finfields.GF(group.order)(7)))
    return r == (g ^ 7)


@case('C26', 'SecInt(l) created under a small sec_param is not reused after sec_param is restored', '25d0ebb', expected=True)
async def _(mpc):
    from mpyc import sectypes
    k = mpc.options.sec_param
    try:
        mpc.options.sec_param = 1
        mpc.SecInt(17)
        mpc.options.sec_param = 30
        T = mpc.SecInt(17)
        return T.field.order.bit_length() >= 17 + 30 + 2
    finally:
        mpc.options.sec_param = k
        sectypes._SecInt.cache_clear()


@open_case('C34', 'C34-regression-accuracy', 'linear_regression / correlation on x = 0..49, y = 2x + 1 (default SecFxp)', expected=True)
async def _(mpc):
    from mpyc import statistics as st
    secfxp = mpc.SecFxp()
    x = [secfxp(float(i)) for i in range(50)]
    y = [secfxp(float(2 * i + 1)) for i in range(50)]
    slope, intercept = st.linear_regression(x, y)
    r = st.correlation(x, y)
    s_, i_, r_ = float(await mpc.output(slope)), float(await mpc.output(intercept)), float(await mpc.output(r))
    return abs(s_ - 2.0) < 0.01 and abs(i_ - 1.0) < 0.25 and abs(r_ - 1.0) < 0.01


@open_case('C34', 'C34-median-wide-range', 'median of secure integers whose range exceeds 2^(l-1), 60 + 30 calls', expected=[[2], [0]],
           max_steps=2_500_000)
async def _(mpc):
    from mpyc import statistics as st
    s16, s32 = mpc.SecInt(16), mpc.SecInt(32)
    d16, d32 = [17000, 17000, -17000, 1, 2, 3, -5], [0, -2 ** 31, 0]
    r16 = {int(await mpc.output(st.median([s16(v) for v in d16]))) for _ in range(60)}
    r32 = {int(await mpc.output(st.median([s32(v) for v in d32]))) for _ in range(30)}
    return [sorted(r16), sorted(r32)]


@open_case('C34', 'C34-stdev-constant-data', 'stdev / pstdev of constant fixed-point data is 0', expected=[0.0, 0.0])
async def _(mpc):
    from mpyc import statistics as st
    secfxp = mpc.SecFxp()
    x = [secfxp(2.5)] * 4
    return [float(await mpc.output(st.stdev(x))), float(await mpc.output(st.pstdev(x)))]


@open_case('C22', 'C22-cross-process-pickle', 'extension-field element and field array pickled here, unpickled in a fresh process',
           expected=[0, 0])
async def _(mpc):
    import pickle
    import subprocess
    from mpyc import finfields, gfpx
    import repo_path
    F = finfields.GF(gfpx.GFpX(7)('x^2+1'))
    blobs = [pickle.dumps(F(13))]
    if np is not None:
        blobs.append(pickle.dumps(finfields.GF(101).array(np.array([1, 2, 100]))))
    else:
        blobs.append(None)
    rcs = []
    for b in blobs:
        if b is None:
            rcs.append(0)
            continue
        code = ("import sys, pickle; sys.argv=['x','--no-log']; sys.path[:0]=%r; import mpyc.finfields; "
                "pickle.loads(bytes.fromhex(%r))" % ([repo_path.REPO] + [p for p in sys.path if p.endswith('.deps')], b.hex()))
        rcs.append(subprocess.run([sys.executable, '-c', code], capture_output=True, timeout=120).returncode)
    return rcs


@case('C09', 'output to receivers=[0, 0] (a party listed twice), slow receiver', 'eda2ed4', cfg=(3, 1, False), expected=[5, None, None])
async def _(mpc):
    secint = mpc.SecInt(16)
    import asyncio
    x = mpc.input(secint(5), senders=1)
    await mpc.gather(x)
    if mpc.pid == 0:
        for _ in range(200):          # the receiver is slow: both copies of its predecessor's share arrive first
            await asyncio.sleep(0)
    r = await mpc.output(x, receivers=[0, 0])
    return await mpc.transfer(None if r is None else int(r))


@case('C21', 'first sqrt() in GF(10007^2) needs few modular powers (not about p)', 'f59a557', expected=True)
async def _(mpc):
    from mpyc import finfields
    F = finfields.GF(finfields.find_irreducible(10007, 2))
    poly = type(F.modulus)
    orig = poly.powmod
    calls = [0]

    def counting(*a, **kw):
        calls[0] += 1
        return orig(*a, **kw)
    poly.powmod = staticmethod(counting)
    try:
        a = F(10007 + 3) ** 2
        r = a.sqrt()
        return r * r == a and calls[0] < 500
    finally:
        poly.powmod = orig


@case('C16', 'mpc.threshold assigned after start: PRSS either still agrees or refuses to run', 'b17a618', cfg=(3, 1, False), expected=True)
async def _(mpc):
    secint = mpc.SecInt(16)
    ok = all(int(b) in (0, 1) for b in await mpc.output(mpc.random_bits(secint, 6)))
    mpc.threshold = mpc.threshold              # the setter replaces the keys by fresh keys of this party only
    x = mpc.input(secint(3 + mpc.pid))
    ok = ok and int(await mpc.output(mpc.sum(x))) == 12      # operations without PRSS keep working
    try:
        mpc.prfs(1 << 20)                      # what every PRSS-based protocol evaluates first
    except RuntimeError:
        return ok                              # refused: no silent garbage
    bits = await mpc.output(mpc.random_bits(secint, 6))
    return ok and all(int(b) in (0, 1) for b in bits) and bool(await mpc.is_zero_public(secint(0)))


@case('C09', 'input with senders=[0, 0] (a party listed twice)', 'd559911', cfg=(3, 1, False), expected=[5])
async def _(mpc):
    secint = mpc.SecInt(16)
    y = mpc.input(secint(5 + mpc.pid), senders=[0, 0])
    return _ints(await mpc.output(y))


@case('C13', 'random_split over a field with at most m elements is refused (t > 0)', '33ae55a', expected=['ValueError', 'ValueError', 3, 3])
async def _(mpc):
    from mpyc import thresha, finfields
    out = []
    for fld, m_ in ((finfields.GF(3), 3), (finfields.GF(2), 2)):
        try:
            thresha.random_split(fld, [fld(1)], 1, m_)
            out.append('dealt')
        except ValueError:
            out.append('ValueError')
    out.append(len(thresha.random_split(finfields.GF(3), [finfields.GF(3)(1)], 0, 3)))      # t = 0: no polynomial needed
    out.append(len(thresha.random_split(finfields.GF(5), [finfields.GF(5)(1)], 1, 3)))
    return out


@case('C13', 'np_random_split over GF(3) with 3 parties is refused', '33ae55a', numpy=True, expected='ValueError')
async def _(mpc):
    from mpyc import thresha, finfields
    fld = finfields.GF(3)
    try:
        thresha.np_random_split(fld, fld.array(np.array([1, 2])), 1, 3)
    except ValueError:
        return 'ValueError'
    return 'dealt'


@case('C39', 'SecFld(2) created with threshold 0 is not reused after the threshold is raised', '3f535bb', cfg=(3, 1, True),
      expected=[2, 4, 1])
async def _(mpc):
    mpc.threshold = 0
    a = mpc.SecFld(2)
    mpc.threshold = 1
    b = mpc.SecFld(2)
    x = mpc.input(b(1), senders=0)
    return [a.field.order, b.field.order, int(await mpc.output(x * x))]


@case('C38', 'public polynomial == / != secure polynomial (public operand first)', 'db23ffe', numpy=True, expected=[True, 1, 0, 0, 1])
async def _(mpc):
    from mpyc import gfpx
    from mpyc.secpols import secpoly
    P = gfpx.GFpX(31)
    a, b = P([1, 2, 3]), P([1, 2, 4])
    f = secpoly(a, sectype=mpc.SecFld(31))
    r = [a == f, a != f, b == f, b != f]
    return [all(isinstance(v, mpc.SecureObject) for v in r)] + [int(await mpc.output(v)) for v in r]


@case('C38', 'secure polynomial comparisons over a signed prime field order coefficients as 0..p-1', '1010740', numpy=True,
      expected=[0, 1, 0, 1])
async def _(mpc):
    from mpyc import gfpx
    from mpyc.secpols import secpoly
    S = mpc.SecFld(31, signed=True)
    P = gfpx.GFpX(31)
    f, g = secpoly(P([30]), sectype=S), secpoly(P([1]), sectype=S)
    u, v = secpoly(P([5, 16]), sectype=S), secpoly(P([5, 15]), sectype=S)
    return [int(await mpc.output(c)) % 31 for c in (f < g, g < f, u < v, u >= v)]


@case('C38', 'iterating over a secure polynomial terminates', '249d685', numpy=True, expected=[1, 2, 3])
async def _(mpc):
    import itertools
    from mpyc.secpols import secpoly
    f = secpoly(np.array([1, 2, 3]), sectype=mpc.SecFld(31))
    cs = list(itertools.islice(iter(f), 50))
    return _ints(await mpc.output(cs)) if len(cs) < 50 else 'unbounded'


@case('C37', 'SecFxp(64,48) array product with negative entries', '3c924f8', numpy=True, expected=[0.75, -1.125, 2.625], tol=2 ** -40)
async def _(mpc):
    fx = mpc.SecFxp(64, 48)
    r = fx.array(np.array([1.5, -2.25, -1.75])) * fx.array(np.array([.5, .5, -1.5]))
    return [float(v) for v in await mpc.output(r)]


@case('C37', 'zero-size secure arrays with option --mix32-64bit (list-based split / recombine)', 'fe2a0ec', numpy=True,
      expected=[[0, 2], [0, 2], 0])
async def _(mpc):
    was = mpc.options.mix32_64bit
    mpc.options.mix32_64bit = True
    try:
        secint = mpc.SecInt(24)
        e = mpc.input(secint.array(np.zeros((0, 2), dtype=int)), senders=0)
        r = await mpc.output(e * e + e)
        s = await mpc.output(mpc.np_sum(e))
        return [list(e.shape), list(r.shape), int(s)]
    finally:
        mpc.options.mix32_64bit = was


@case('C37', 'zero-size secure arrays with option --mix32-64bit, 3 parties', 'fe2a0ec', cfg=(3, 1, False), numpy=True, expected=[[0], 0])
async def _(mpc):
    was = mpc.options.mix32_64bit
    mpc.options.mix32_64bit = True
    try:
        secint = mpc.SecInt(24)
        e = mpc.input(secint.array(np.zeros((0,), dtype=int)), senders=0)
        r = await mpc.output(e * e)
        return [list(r.shape), int(await mpc.output(mpc.np_sum(e * e)))]
    finally:
        mpc.options.mix32_64bit = was


@case('C37', '2 ** (secure integer array) with 3 parties (non-senders declare a placeholder)', '30a9e36', cfg=(3, 1, False), numpy=True,
      expected=[1, 2, 32])
async def _(mpc):
    secint = mpc.SecInt(32)
    return _ints(await mpc.output(2 ** secint.array(np.array([0, 1, 5]))))


@case('C37', 'np.block / np_update / np.outer / @ / np.convolve of a secure fixed-point array with PUBLIC operands', '70fd347', numpy=True,
      expected=[[0.5, -1.0, 1.0, -2.0], [0.5, 9.0], [3.0, -1.0], [1.0, 1.5], [[1.0, -0.5], [-2.0, 1.0]], [[0.25, -0.5], [-0.75, 1.5]],
                0.5, [0.5, -0.5, -1.0]], tol=2 ** -14)
async def _(mpc):
    S = mpc.SecFxp(32, 16)
    xv = np.array([[0.5, -1.0], [2.0, 3.25]])
    x = S.array(xv)
    xi = S.array(np.array([1.0, -1.0]))

    async def o(v):
        return np.asarray(await mpc.output(v), dtype=float).tolist()
    r = [(await o(np.block([x, np.array([[1, -2], [3, 4]])])))[0],                      # 70fd347
         (await o(mpc.np_update(mpc.np_copy(x), (0, 1), 9)))[0],                         # 817bd38
         (await o(mpc.np_update(mpc.np_copy(x), 0, np.array([3, -1]))))[0],
         await o(mpc.np_update(mpc.np_copy(xi), 1, 1.5)),
         await o(np.outer(x[0], np.array([2, -1]))),                                     # 6b9534e
         await o(np.outer(np.array([0.5, -1.5]), x[0])),
         float(await mpc.output(x[0] @ np.array([True, False]))),                        # 4bf8830
         await o(np.convolve(x[0], np.array([True, True])))]
    return r


@case('C37', 'public float vector @ secure fixed-point vector, 3 parties', '214a6af', cfg=(3, 1, False), numpy=True, expected=[-3.75, -3.75],
      tol=2 ** -14)
async def _(mpc):
    S = mpc.SecFxp(32, 16)
    a = S.array(np.array([1.5, -2.25]))
    w = np.array([0.5, 2.0])
    return [float(await mpc.output(w @ a)), float(await mpc.output(a @ w))]


@case('C37', 'np.hsplit of a 1D array; np.roll with tuple / np.int64 shifts', '4c3c27f', numpy=True,
      expected=[[[0, 1, 2], [3, 4, 5]], [5, 0, 1, 2, 3, 4], [[10, 11, 8, 9], [2, 3, 0, 1], [6, 7, 4, 5]]])
async def _(mpc):
    T = mpc.SecInt(16)
    v = T.array(np.arange(6))
    a = T.array(np.arange(12).reshape(3, 4))
    return [[(await mpc.output(p)).tolist() for p in np.hsplit(v, 2)], (await mpc.output(np.roll(v, np.int64(1)))).tolist(),
            (await mpc.output(np.roll(a, (1, 2), axis=(0, 1)))).tolist()]


@case('C31', 'count / contains of an empty seclist are secure values', '8cfd064', cfg=(3, 1, False), expected=[True, 0, 0])
async def _(mpc):
    from mpyc.seclists import seclist
    secint = mpc.SecInt(16)
    e = seclist([], secint)
    r = [e.count(5), e.contains(5)]
    return [all(isinstance(v, mpc.SecureObject) for v in r)] + _ints(await mpc.output(r))


@case('C31', 'secret unit-vector index given as seclist / tuple in get, set, del, pop, insert', '63574c9', cfg=(3, 1, False),
      expected=[12, 12, [10, 11, 5, 13], [10, 11, 13], 12, [10, 11, 13], [10, 5, 11, 13]])
async def _(mpc):
    from mpyc.seclists import seclist
    secint = mpc.SecInt(16)
    s = seclist([10, 11, 12, 13], secint)
    u = seclist([0] * 4, secint)
    u[secint(2)] = 1
    out = [int(await mpc.output(s[u])), int(await mpc.output(s[tuple(u)]))]
    s[u] = 5
    out.append(_ints(await mpc.output(list(s))))
    del s[tuple(u)]
    out.append(_ints(await mpc.output(list(s))))
    s = seclist([10, 11, 12, 13], secint)
    v = s.pop(u)
    out += [int(await mpc.output(v)), _ints(await mpc.output(list(s)))]
    u5 = seclist([0] * 4, secint)
    u5[secint(1)] = 1
    s.insert(tuple(u5), 5)
    out.append(_ints(await mpc.output(list(s))))
    return out


@case('C34', 'mean of 2^(f+1) and more secure fixed-point numbers', '89f0e22', expected=[1.5, 2.0, 3.0], tol=2 ** -7)
async def _(mpc):
    from mpyc import statistics as S
    F, G = mpc.SecFxp(16, 8), mpc.SecFxp(8, 4)
    return [float(await mpc.output(S.mean([F(1.5)] * 512))), float(await mpc.output(S.mean([G(2.0)] * 32))),
            float(await mpc.output(S.mean([F(3.0)] * 1000)))]


@case('C34', 'variance / pvariance / stdev with a public float xbar / mu', 'a863b45', expected=[12.6667, 11.75, 3.559], tol=2 ** -10)
async def _(mpc):
    from mpyc import statistics as S
    F = mpc.SecFxp(32, 16)
    x = [F(1), F(2), F(4), F(9)]
    return [float(await mpc.output(S.variance(x, 4.0))), float(await mpc.output(S.pvariance(x, 2.5))),
            float(await mpc.output(S.stdev(x, 4.0)))]


@case('C05', 'the default SecFlt(8) (s-1 > 2^e): sums and comparisons of nearby exponents', '1c40c3c',
      expected=[1.0, 0.875, 0.0, 1.0, 1.0, 0.0])
async def _(mpc):
    T = mpc.SecFlt(8)
    r = [T(0.5) + T(0.5), T(0.5) + T(0.375), T(0.5) - T(0.5), T(0.375) < T(0.5), T(0.75) == T(0.75), T(0.5) < T(0.375)]
    return [float(v) for v in await mpc.output(r)]


@case('C05', 'SecFlt(s=24, e=4): 1.0 + 1.0, 1.5 + 1.25, 3 parties', '1c40c3c', cfg=(3, 1, False), expected=[2.0, 2.75, 1.0])
async def _(mpc):
    T = mpc.SecFlt(s=24, e=4)
    return [float(v) for v in await mpc.output([T(1.0) + T(1.0), T(1.5) + T(1.25), T(1.25) < T(1.5)])]


@open_case('C08', 'C08-barrier-inside-coroutine', 'await mpc.barrier() inside an MPyC coroutine whose result is awaited by a sibling',
           expected=27, max_steps=40_000)
async def _(mpc):
    secint = mpc.SecInt(16)

    @mpc.coroutine
    async def cube(x):
        await mpc.returnType(type(x))
        y = x * x
        await mpc.barrier()
        return y * x
    return int(await mpc.output(cube(secint(3))))


@open_case('C09', 'C09-transfer-dict-duplicate-receiver', 'transfer with sender_receivers={0: [1, 1], 1: [], 2: []}', cfg=(3, 1, False),
           expected=[0, 1, 0], max_steps=200_000)
async def _(mpc):
    r = await mpc.transfer('hi', sender_receivers={0: [1, 1], 1: [], 2: []})
    return await mpc.transfer(len(r))


@case('C37', 'a[0, :, mask2d]: declared shape of the placeholder vs shape of the value', 'b9a0237', numpy=True,
           expected=[[2, 3], [2, 3]])
async def _(mpc):
    T = mpc.SecInt(16)
    c = T.array(np.arange(120).reshape(2, 3, 4, 5))
    m45 = np.zeros((4, 5), dtype=bool)
    m45[1, 2] = m45[3, 0] = True
    r = c[0, :, m45]
    return [list(r.shape), list((await mpc.output(r)).shape)]


@case('C31', 'await secindex(unit vector of secure integers)', '31ccccb', expected=2)
async def _(mpc):
    from mpyc.seclists import secindex
    secint = mpc.SecInt(16)
    return int(await secindex([secint(0), secint(0), secint(1), secint(0)]))


@open_case('C34', 'C34-public-count-reciprocal', 'mean of three equal fixed-point numbers 20000.0 within 16 units (division by a public count)',
           expected=True)
async def _(mpc):
    from mpyc import statistics as S
    F = mpc.SecFxp(32, 16)
    return abs(float(await mpc.output(S.mean([F(20000.0)] * 3))) - 20000.0) <= 16 * 2 ** -16


@case('C29', 'sorted rows of secure floats by their first entry', '896c1d4', expected=[[1.0, 20.0], [3.0, 10.0]])
async def _(mpc):
    T = mpc.SecFlt(32)
    rows = [[T(3.0), T(10.0)], [T(1.0), T(20.0)]]
    r = mpc.sorted(rows, key=lambda r_: r_[0])
    return [[float(await mpc.output(v)) for v in row] for row in r]


@case('C29', 'min of a secure float and a public float', '896c1d4', expected=1.0)
async def _(mpc):
    T = mpc.SecFlt(32)
    return float(await mpc.output(mpc.min(T(1e8), 1.0)))


@open_case('C37', 'C37-object-dtype-public-factor', 'secure fixed-point array times a public int array of dtype object', numpy=True,
           expected=[3.0, -6.75])
async def _(mpc):
    S = mpc.SecFxp(32, 16)
    a = S.array(np.array([1.5, -2.25]))
    counts = await mpc.output(mpc.SecInt(16).array(np.array([2, 3])))       # revealed secure integers: dtype object
    return [float(v) for v in await mpc.output(a * np.asarray(counts, dtype=object))]


@case('C28', 'secgrp.repeat with a public base and a public exponent', '9fc116a', expected=[True, True])
async def _(mpc):
    from mpyc import fingroups
    G = fingroups.QuadraticResidues(l=8)
    S = mpc.SecGrp(G)
    g = G.generator
    return [await mpc.output(S.repeat(g, 5)) == g ** 5, await mpc.output(S.repeat(S(g), 5)) == g ** 5]


@case('C28', 'secure class group division 36 divmod 3 and friends, 400 calls', '05231ed', expected=0)
async def _(mpc):
    from mpyc import secgroups
    secint = mpc.SecInt(9)
    bad = 0
    for (a, b) in ((36, 3), (6, 3), (35, 5), (37, 5)):
        for _ in range(100):
            try:
                q, r = await mpc.output(list(secgroups._divmod(secint(a), secint(b))))
            except AssertionError:
                bad += 1
                continue
            bad += (int(q), int(r)) != divmod(a, b)
    return bad


@case('C31', 'secindex: sum of two indices with offsets over secure fixed-point numbers, opened', '31ccccb', expected=[2, 5, 15])
async def _(mpc):
    from mpyc.seclists import secindex, seclist
    st = mpc.SecFxp(16, 8)
    i = secindex([st(0), st(0), st(1), st(0)])
    j = secindex([st(0), st(1), st(0)], offset=2)
    s = seclist([10, 11, 12, 13, 14, 15, 16, 17], st)
    return [await i, await (i + j), int(await mpc.output(s[i + j]))]


@case('C29', 'min / max / argmin / min_max on rows of secure floats; max with a public float, 3 parties', '896c1d4', cfg=(3, 1, False),
      expected=[[1.0, 20.0], [3.0, 10.0], 1.0, [2.0, -5.5], -1.0])
async def _(mpc):
    T = mpc.SecFlt(32)
    rows = [[T(3.0), T(10.0)], [T(1.0), T(20.0)], [T(2.0), T(-5.5)]]

    async def o(row):
        return [float(await mpc.output(v)) for v in row]
    i, r = mpc.argmin(rows, key=lambda r_: r_[0])
    mn, _mx = mpc.min_max(rows, key=lambda r_: r_[1])
    return [await o(mpc.min(rows, key=lambda r_: r_[0])), await o(mpc.max(rows, key=lambda r_: r_[0])), float(await mpc.output(i)),
            await o(mn), float(await mpc.output(mpc.max(T(-1e8), -1.0)))]


@case('C37', 'a[..., mask2d], a[mask2d, None, 0], a[::2, [0,1,0], ..., -2]: declared shape = shape of the value', 'b9a0237', numpy=True,
      expected=True)
async def _(mpc):
    T = mpc.SecInt(16)
    c = T.array(np.arange(120).reshape(2, 3, 4, 5))
    m45 = np.zeros((4, 5), dtype=bool)
    m45[1, 2] = m45[3, 0] = m45[0, 4] = True
    m23 = np.array([[True, False, True], [False, True, False]])
    ok = True
    for key in ((Ellipsis, m45), (m23, Ellipsis), (m23, None, 0), (m23, slice(None), 0), (0, slice(None, None, 2), [0, 1, 0], Ellipsis, -2)):
        r = c[key]
        v = await mpc.output(r)
        ok = ok and tuple(r.shape) == tuple(v.shape) and np.array_equal(v, np.arange(120).reshape(2, 3, 4, 5)[key])
    return ok


@open_case('C28', 'C28-ext-field-condition', 'if_else with a SecFld(order) condition over BN256_twist (secure type over GF(p^2))', expected=[True, True],
           max_steps=6_000_000)
async def _(mpc):
    from mpyc import fingroups
    G = fingroups.EllipticCurve('BN256_twist', 'projective')
    S = mpc.SecGrp(G)
    secfld = mpc.SecFld(G.order)
    g, e = G.generator, G.identity
    return [await mpc.output(S.if_else(secfld(1), g, e)) == g, await mpc.output(S.if_else(secfld(0), g, e)) == e]


@case('C03', 'np_update does not write into its operand (views) and keeps the integral flags right', 'f132185', cfg=(3, 1, False), numpy=True,
      expected=[[[1.0, 2.0], [3.0, -4.0]], True, False, [[1.0, 4.0], [9.0, 16.0]], [1.0, 2.0]])
async def _(mpc):
    S = mpc.SecFxp(32, 16)
    I = S.array(np.array([[1, 2], [3, -4]]))
    row = I[0]
    row = mpc.np_update(row, 0, S(0.25))
    A = S.array(np.array([1.0, 2.0]))
    mpc.np_update(A, 1, 0.5)
    return [(await mpc.output(I)).tolist(), bool(I.integral), bool(row.integral), (await mpc.output(I * I)).tolist(),
            (await mpc.output(A)).tolist()]


@case('C03', 'from_bits / np_from_bits of fractional "bits" are not marked integral', 'aef3042', numpy=True,
      expected=[False, True, False, True, 0.6875], tol=2 ** -10)
async def _(mpc):
    S = mpc.SecFxp(32, 16)
    y = mpc.from_bits([S(0.25), S(1)])
    z = mpc.from_bits([S(1), S(1)])
    w = mpc.np_from_bits(S.array(np.array([[0.5, 1.0]])))
    w2 = mpc.np_from_bits(S.array(np.array([[1.0, 1.0]])))
    return [bool(y.integral), bool(z.integral), bool(w.integral), bool(w2.integral), float(await mpc.output(y * S(0.3055419921875)))]


@case('C30', 'np_from_bits over a prime field lifted to an extension field (SecFld(3), 3 parties)', 'aef3042', cfg=(3, 1, False), numpy=True,
      expected=[2, 1, 1])
async def _(mpc):
    F3 = mpc.SecFld(3)
    return _ints(await mpc.output(mpc.np_from_bits(F3.array(np.array([[0, 1], [1, 0], [1, 0]])))))


@case('C01', 'NumPy integer scalars with secure integers: reflected %, //, << raise; // np.int64; comparisons with the scalar first',
      'f11d5f9', numpy=True, expected=['TypeError', 'TypeError', 'TypeError', -4, 3, [0, 0, 1, 1, 0, 0, 1]])
async def _(mpc):
    secint = mpc.SecInt(16)

    def tr(f):
        try:
            f()
            return 'computed'
        except TypeError:
            return 'TypeError'
    out = [tr(lambda: np.int64(7) % secint(5)), tr(lambda: np.int64(7) // secint(5)), tr(lambda: np.int64(3) << secint(5))]
    out += [int(await mpc.output(secint(-25) // np.int64(7))), int(await mpc.output(secint(-25) % np.int64(7)))]
    r = [np.int64(7) < secint(5), np.int64(7) <= secint(5), np.int64(7) > secint(5), np.int64(7) >= secint(5), np.int64(7) == secint(5),
         np.int64(5) != secint(5), secint(5) + np.array(3) == 8]
    return out + [_ints(await mpc.output(r))]


@case('C30', 'np_find(a, s, bits=False) with an array of targets (also non-square a)', 'e030384', numpy=True, expected=[[2, 0, 1], [2, 2]])
async def _(mpc):
    T = mpc.SecInt(16)
    A = np.array([[3, 5, 7], [7, 5, 3], [1, 3, 5]])
    return [(await mpc.output(mpc.np_find(T.array(A), T.array(np.array([7, 7, 3])), bits=False))).tolist(),
            (await mpc.output(mpc.np_find(T.array(A[:2]), T.array(np.array([7, 3])), bits=False))).tolist()]


@case('C30', 'np_find with float-valued f / cs_f and with both f and cs_f', '2bbdb2f', numpy=True,
      expected=[[0.25, 1.0, 0.0625], [0.25, 1.0, 0.0625], [3, 1, 5]])
async def _(mpc):
    T, S = mpc.SecInt(16), mpc.SecFxp(16, 4)
    bits = np.array([[0, 0, 1, 0], [1, 0, 0, 0], [0, 0, 0, 0]])
    b = S.array(bits.astype(float))
    return [(await mpc.output(mpc.np_find(b, 1, cs_f=lambda b_, i: (2 - b_) * 2 ** -(i + 1)))).tolist(),
            (await mpc.output(mpc.np_find(b, 1, f=lambda i: 2.0 ** -i))).tolist(),
            (await mpc.output(mpc.np_find(T.array(bits), 1, f=lambda i: i + 1, cs_f=lambda b_, i: i + b_ + 1))).tolist()]


@case('C20', 'field arrays with NumPy integer scalars as divisors / shift counts; operand arrays are not modified', 'da65b3b', numpy=True,
      expected=[True, True, [-2, 3, 1], [-2, 3, 1], True, True])
async def _(mpc):
    from mpyc import finfields, gfpx
    F = finfields.GF(2 ** 127 - 1)
    a = F.array(np.array([1, 2, 3]))
    G = finfields.GF(7)
    b = G.array(np.array([1, 2, 3]))
    B = finfields.GF(gfpx.GFpX(2)(0x11b))
    c = B.array(np.array([1, 2, 3]))
    x = np.array([2 ** 70, 9, 10], dtype=object)
    xx = x.copy()
    _ = (b == x)
    _ = G.array(x)
    return [bool(np.all(a / np.int64(3) == a / 3)), bool(np.all(a >> np.int64(2) == a >> 2)), [int(v) for v in b / np.uint8(3)],
            [int(v) for v in b / np.uint64(3)], bool(np.all(c / np.int64(3) == c / 3)), x.tolist() == xx.tolist()]


@case('C33', 'random_derangement of one element and sample with k > n raise ValueError at the call (3 parties); rows keep their entries',
      '05bfd34', cfg=(3, 1, False), expected=['ValueError', 'ValueError', [[1, 2], [3, 4], [5, 6]], [[1, 2], [3, 4], [5, 6]]])
async def _(mpc):
    import mpyc.random as R
    secint = mpc.SecInt(16)
    out = []
    for f in (lambda: R.random_derangement(secint, [5]), lambda: R.sample(secint, [1, 2, 3], 5)):
        try:
            f()
            out.append('no error')
        except ValueError:
            out.append('ValueError')
    rows = [[1, 2], [3, 4], [5, 6]]
    p = R.random_permutation(secint, rows)
    x = [[secint(1), 2], [3, secint(4)], [5, 6]]
    R.shuffle(secint, x)
    out.append(rows)
    out.append(sorted([_ints(await mpc.output(r)) for r in x]))
    await mpc.output(p[0])
    return out


@case('C04', 'secure field array / public field element; 0D and zero-size outputs over a lifted field', 'a47a1b9', cfg=(3, 1, False), numpy=True,
      expected=[[5, 3, 1], 1, [0, 2], 1])
async def _(mpc):
    S = mpc.SecFld(7)
    A = S.array(np.array([1, 2, 3]))
    S3 = mpc.SecFld(3)
    return [_ints(await mpc.output(A / S.field(3))), int(await mpc.output(S3.array(np.array(2)) * 2)),
            list((await mpc.output(S3.array(np.zeros((0, 2), dtype=int)) * 2)).shape),
            int(await mpc.output(mpc.np_det(S3.array(np.array([[1, 2], [0, 1]])))))]


@case('C23', 'polynomial strings with multi-character symbols / negative exponents; == with polynomials over another field', '3914227',
      expected=[True, 'ValueError', 'ValueError', False, True, True])
async def _(mpc):
    from mpyc import gfpx
    P3, P2 = gfpx.GFpX(3), gfpx.GFpX(2)
    a = P3('x^2+2x+1')
    out = [P3.from_terms(P3.to_terms(a, 'ab'), 'ab') == a]
    for t in ('x^-1', 'x^3+x^-2'):
        try:
            P3(t)
            out.append('accepted')
        except ValueError:
            out.append('ValueError')
    return out + [P3(1) == P2(1), P3(1) != P2(1), P3(1) in [P2(1), P3(1)]]


@case('C27', 'HyperellipticCurve(l=4, genus=2) / (l=2) return; generator has the declared order where known', 'd1bceb6', expected=[True, True])
async def _(mpc):
    import signal
    from mpyc import fingroups as fg

    def alarm(*_):
        raise TimeoutError
    old = signal.signal(signal.SIGALRM, alarm)
    signal.alarm(60)
    try:
        out = []
        for kw in (dict(l=4, genus=2), dict(l=2)):
            try:
                G = fg.HyperellipticCurve(**kw)
                out.append(G.generator @ G.identity == G.generator)
            except TimeoutError:
                out.append('hangs')
        return out
    finally:
        signal.alarm(0)
        signal.signal(signal.SIGALRM, old)


@case('C27', 'ClassGroup(l=2052).encode / decode', '7f85a15', expected=5)
async def _(mpc):
    from mpyc import fingroups as fg
    C = fg.ClassGroup(l=2052)
    return int(C.decode(*C.encode(5)))


@open_case('C39', 'C39-extension-field-not-lifted', 'SecFld(4) with 5 parties (threshold 2): a type over a field with more than 5 elements, outputs in GF(4)',
           cfg=(5, 2, True), expected=[True, 3])
async def _(mpc):
    S = mpc.SecFld(4)
    x = mpc.input(S(3), senders=0)
    return [S.field.order > 5, int(await mpc.output(x))]


@open_case('C33', 'C33-randrange-extension-field', 'randrange(SecFld(2^8), 3, 6) stays in {3, 4, 5}', expected=True)
async def _(mpc):
    import mpyc.random as R
    S = mpc.SecFld(2 ** 8)
    ok = True
    for _ in range(12):
        ok = ok and int(await mpc.output(R.randrange(S, 3, 6))) in (3, 4, 5)
    return ok


@open_case('C33', 'C33-choices-weight-total', 'choices(SecInt(8), [1,2,3], [150,150,151], k=30) returns members of the population', expected=True)
async def _(mpc):
    import mpyc.random as R
    secint = mpc.SecInt(8)
    return all(int(v) in (1, 2, 3) for v in await mpc.output(R.choices(secint, [1, 2, 3], [150, 150, 151], k=30)))


@open_case('C27', 'C27-bn256-twist-encode', "EllipticCurve('BN256_twist').encode / decode round trip", expected=5)
async def _(mpc):
    from mpyc import fingroups as fg
    G = fg.EllipticCurve('BN256_twist', 'projective')
    return int(G.decode(*G.encode(5)))


@case('C01', '0 ** secint.array([0, 1, 2, 5]), 3 parties', '9a72fd1', cfg=(3, 1, False), numpy=True, expected=[1, 0, 0, 0])
async def _(mpc):
    secint = mpc.SecInt(16)
    return _ints(await mpc.output(0 ** secint.array(np.array([0, 1, 2, 5]))))


OPEN_STEPS['random_derangement of one element and sample with k > n raise ValueError at the call (3 parties); rows keep their entries'] = 300_000


@case('C21', 'sqrt of np.diag(w*w) and of a stacked determinant with a singular matrix over GF(5^2) and GF(13^1)', 'fff0cad', numpy=True,
      expected=[True, True, True, True])
async def _(mpc):
    from mpyc import finfields
    out = []
    for q in ((5, 2), (13, 1)):
        F = finfields.GF(finfields.find_irreducible(*q))
        A = F.array
        w = A(np.array([1, 2]))
        D = np.diag(w * w)
        r = D.sqrt()
        out.append(bool(np.all(r * r == D)))
        d = np.linalg.det(np.stack((np.outer(w, w), A(np.array([[1, 0], [0, 1]])))))
        r = d.sqrt()
        out.append(bool(np.all(r * r == d)))
    return out


@case('C37', 'a ** 254 for a 0D secure array over GF(11) and GF(2^8), 3 parties', 'dd77350', cfg=(3, 1, False), numpy=True, expected=[True, True])
async def _(mpc):
    out = []
    for S in (mpc.SecFld(11), mpc.SecFld(2 ** 8)):
        a = S.array(np.array(3))
        r = await mpc.output(a ** 254)
        out.append(bool(np.all(r == S.field.array(np.array(3)) ** 254)))
    return out


@case('C39', 'lifted SecFld(3), 3 parties: outputs (base-field arrays) as public operands of @, np_update, np_concatenate, * 0D array', '1827b67',
      cfg=(3, 1, False), numpy=True, expected=[[[1, 1], [0, 1]], [[1, 1], [0, 1]], [2, 2], [1, 2, 1, 2], [[2, 1], [0, 2]]])
async def _(mpc):
    S = mpc.SecFld(3)
    A = S.array(np.array([[1, 2], [0, 1]]))
    out = await mpc.output(A)
    v = S.array(np.array([1, 2]))

    async def o(x):
        return [[int(e) for e in r] for r in (await mpc.output(x)).tolist()] if x.ndim == 2 else _ints((await mpc.output(x)).tolist())
    return [await o(A @ out), await o(out @ A), await o(mpc.np_update(v, 0, out[0, 1])), await o(mpc.np_concatenate((A[0], out[0]))),
            await o(A * np.array(5))]


# ---------------------------------------------------------------------------------------------------- driver
def _close(a, b, tol):
    if isinstance(a, (list, tuple)) and isinstance(b, (list, tuple)):
        return len(a) == len(b) and all(_close(x, y, tol) for x, y in zip(a, b))
    if isinstance(a, bool) or isinstance(b, bool) or isinstance(a, str) or isinstance(b, str):
        return a == b
    if isinstance(a, (int, float)) and isinstance(b, (int, float)):
        return abs(a - b) <= tol * max(1.0, abs(b)) if tol else a == b
    return a == b


def run_case(idx, seed=1):
    prop, name, commit, (m, t, no_prss), needs_np, prog, expected, tol = CASES[idx]
    if needs_np:
        from mpyc.numpy import np as mpyc_np      # mpyc may have been imported without NumPy in this process
        if np is None or mpyc_np is None:
            return None, 'skipped (NumPy not available to mpyc in this process)'
    try:
        res = SimNet(m, t, no_prss=no_prss, seed=seed, sched=Scheduler(seed, 'random'),
                     max_steps=OPEN_STEPS.get(name, 3_000_000)).run(prog)
    except (Deadlock, PartyError) as exc:
        return False, f'run does not complete: {type(exc).__name__}: {str(exc)[:300]}'
    except Exception as exc:  # noqa: BLE001
        return False, f'raised {type(exc).__name__}: {str(exc)[:300]}'
    if any(repr(r) != repr(res[0]) for r in res):
        return False, f'parties obtain different results: {[repr(r)[:80] for r in res]}'
    if not _close(res[0], expected, tol):
        return False, f'observed {res[0]!r}, expected {expected!r}'
    return True, 'ok'


def check(ctx, prop):
    for idx, c in enumerate(CASES):
        if c[0] != prop:
            continue
        ok, msg = run_case(idx, seed=1 + ctx.seed)
        ctx.count('regression-inputs')
        if ok is None:
            ctx.count('regression-inputs-skipped')
            continue
        ctx.case(('regression', prop, c[1]), nontrivial=True)
        if c[2].startswith('open:'):
            if not ok:     # listed open finding reproduces (check.py prints KNOWN-FINDING for its key)
                ctx.violation(f'{prop}: {c[1]}: {msg}', {'kind': 'regression', 'name': c[1], 'finding_key': c[2][5:],
                                                         'seed': 1 + ctx.seed})
            else:
                ctx.note(f'open finding {c[2][5:]} no longer reproduces with its directed input ({c[1]})')
            continue
        if not ok:
            ctx.violation(f'{prop}: regression input of repo fix {c[2]} fails again: {c[1]}: {msg}',
                          {'kind': 'regression', 'name': c[1], 'commit': c[2], 'seed': 1 + ctx.seed})
            return


def replay(data):
    for idx, c in enumerate(CASES):
        if c[1] == data['name']:
            ok, msg = run_case(idx, seed=data.get('seed', 1))
            return bool(ok) or ok is None, msg
    return False, 'unknown regression input ' + repr(data.get('name'))
