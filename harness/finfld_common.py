"""Shared helpers of the FinFld checks (C20, C21, C22): field catalogue, wrappers around the REAL
mpyc.finfields classes, canonical text forms, request lines for lean/Drv/FinFld.lean.

An element is addressed by its integer encoding n in [0, q): the int of a prime field element, resp.
sum(c_i p^i) of the coefficients of an extension/binary field element.  Canonical text of a value:
prime/binary field: decimal int; odd-characteristic extension field: coefficient list "c0,c1,.." with
trailing zeros stripped ("-" for zero).
"""
import os
import sys

sys.path.insert(0, os.path.dirname(os.path.abspath(__file__)))
import repo_path  # noqa: F401,E402
_argv = sys.argv
sys.argv = [sys.argv[0], '--no-log']
from mpyc import finfields, gfpx  # noqa: E402
sys.argv = _argv
from finfld_oracle import OField  # noqa: E402

P64 = 18446744073709551557          # 2^64 - 59   (1 mod 4)
P64B = 18446744073709551427         # 3 mod 4
P256 = 2**256 - 189                 # 3 mod 4
P255 = 2**255 - 19                  # 1 mod 4  (Cipolla branch at full size)


def strip(c):
    c = list(c)
    while c and c[-1] == 0:
        c.pop()
    return c


def ptxt(c):
    c = strip(c)
    return ','.join(map(str, c)) if c else '-'


class W:
    """One field: the real class, the oracle field, and text/line conversions."""

    def __init__(self, p, modulus=None):
        """modulus: None (prime field) or coefficient list (constant term first, monic)."""
        self.p = p
        if modulus is None:
            self.kind = 'prime'
            self.F = finfields.GF(p)
            self.O = OField(p)
            self.mod = None
            self.d = 1
        else:
            self.mod = list(modulus)
            self.d = len(modulus) - 1
            self.poly = gfpx.GFpX(p)
            self.F = finfields.GF(self.poly(list(modulus)))
            self.O = OField(p, modulus)
            self.kind = 'bin' if p == 2 else 'ext'
            self.modint = sum(c * p**i for i, c in enumerate(modulus))
        self.q = p ** self.d
        self.name = f'GF({p})' if modulus is None else f'GF({p}^{self.d})[{ptxt(self.mod)}]'
        # field prefix of driver request lines
        if self.kind == 'prime':
            self.fld = str(p)
            self.pre = ''
        elif self.kind == 'ext':
            self.fld = f'{p} {ptxt(self.mod)}'
            self.pre = 'x'
        else:
            self.fld = str(self.modint)
            self.pre = 'b'

    # ---- elements ---------------------------------------------------------------------------
    def elem(self, n):
        """real element with integer encoding n (0 <= n < q)"""
        return self.F(n)

    def opoly(self, n):
        """polynomial operand (real gfpx polynomial) with integer encoding n >= 0"""
        return self.poly(n)

    def oelem(self, n):
        return self.O.from_int(n) if self.kind != 'prime' else (n % self.p,)

    def oconv(self, okind, o):
        """oracle element denoted by an operand"""
        if okind == 'e':
            return self.oelem(o)
        if okind == 'i':
            return self.O.from_int(o)
        return self.O.from_poly(self.O.digits(o))

    def otxt(self, t):
        """canonical text of an oracle element"""
        if self.kind == 'prime':
            return str(t[0])
        if self.kind == 'bin':
            return str(self.O.to_int(t))
        return ptxt(t)

    def coeffs(self, e):
        """coefficient list of a real element (interface: iteration over the polynomial value)"""
        return list(e.value)

    def txt(self, e):
        """canonical text of a real element"""
        if self.kind == 'prime':
            return str(e.value)
        if self.kind == 'bin':
            return str(int(e.value))
        return ptxt(self.coeffs(e))

    def ntxt(self, n):
        """canonical text of the element / polynomial with integer encoding n (not reduced)"""
        if self.kind == 'ext':
            return ptxt(self.O.digits(n))
        return str(n)

    def reduced(self, e):
        """class invariant of a real element: type, range, normal form"""
        if type(e) is not self.F:
            return False
        if self.kind == 'prime':
            return type(e.value) is int and 0 <= e.value < self.p
        v = e.value
        if type(v) is not self.poly:
            return False
        if self.kind == 'bin':
            return type(v.value) is int and 0 <= v.value < self.q
        c = v.value
        return (type(c) is list and len(c) <= self.d and all(type(x) is int and 0 <= x < self.p for x in c)
                and (not c or c[-1] != 0))

    # ---- driver lines -----------------------------------------------------------------------
    def operand_txt(self, okind, o):
        if okind == 'i':
            return str(o)
        return self.ntxt(o)

    def line_bin(self, op, a, okind, o):
        return f'{self.pre}bin {op} {self.fld} {self.ntxt(a)} {okind} {self.operand_txt(okind, o)}'

    def line_un(self, op, a):
        return f'{self.pre}un {op} {self.fld} {self.ntxt(a)}'

    def line_sh(self, op, a, n):
        return f'{self.pre}sh {op} {self.fld} {self.ntxt(a)} {n}'

    def line_eq(self, a, okind, o):
        return f'{self.pre}eq {self.fld} {self.ntxt(a)} {okind} {self.operand_txt(okind, o)}'

    def line_sqrt(self, a, inv):
        return f'{self.pre}sqrt {self.fld} {self.ntxt(a)} {1 if inv else 0}'

    def line_issqr(self, a):
        return f'{self.pre}issqr {self.fld} {self.ntxt(a)}'


def exc_name(exc):
    return type(exc).__name__


class RealCodeTimeout(Exception):
    pass


class time_limit:
    """watchdog for one call into the real code (main thread): a loop that no longer terminates becomes a reported
    violation instead of a hanging check"""

    def __init__(self, seconds):
        self.seconds = seconds

    def _fire(self, signum, frame):
        raise RealCodeTimeout()

    def __enter__(self):
        import signal
        self._old = signal.signal(signal.SIGALRM, self._fire)
        signal.setitimer(signal.ITIMER_REAL, self.seconds)

    def __exit__(self, *exc):
        import signal
        signal.setitimer(signal.ITIMER_REAL, 0)
        signal.signal(signal.SIGALRM, self._old)
        return False


def irreducible(p, d):
    """modulus the library itself would pick (find_irreducible), as coefficient list"""
    m = finfields.find_irreducible(p, d)
    return list(gfpx.GFpX(p)(m))


_CACHE = {}


def field(p, modulus=None):
    key = (p, tuple(modulus) if modulus is not None else None)
    if key not in _CACHE:
        _CACHE[key] = W(p, modulus)
    return _CACHE[key]


def small_fields():
    """all fields of the exhaustive part: orders 2,3,5,7,11 and 4,8,9,16,25,27"""
    fs = [field(p) for p in (2, 3, 5, 7, 11)]
    for p, d in ((2, 2), (2, 3), (3, 2), (2, 4), (5, 2), (3, 3)):
        fs.append(field(p, irreducible(p, d)))
    return fs


AES = [1, 1, 0, 1, 1, 0, 0, 0, 1]     # x^8 + x^4 + x^3 + x + 1


def big_fields():
    """fields sampled at random: GF(2^8) with the AES modulus, GF(3^5), 64- and 256-bit primes"""
    return [field(2, AES), field(3, irreducible(3, 5)), field(P64), field(P64B), field(P256), field(P255)]


def prime_power_fields(limit):
    """one field for every prime power q <= limit (prime fields and all extension degrees)"""
    fs = []
    sieve = [True] * (limit + 1)
    for p in range(2, limit + 1):
        if not sieve[p]:
            continue
        for k in range(p * p, limit + 1, p):
            sieve[k] = False
        fs.append(field(p))
        d = 2
        while p ** d <= limit:
            fs.append(field(p, irreducible(p, d)))
            d += 1
    return fs
