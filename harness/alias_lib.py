"""Caller-owned lists: aliasing checks shared by several property checks.

MPyC operations are coroutines: in asynchronous mode (any multi-party run) the call returns placeholders at once and
the body runs later.  An operation that takes a LIST must therefore (a) work on the values the list held AT CALL TIME
(the code takes defensive copies `x = x[:]` before its first await) and (b) never write into the caller's list or into
the shares of its elements.  For every operation of the table below, in simulator runs (m = 1 asynchronous, m = 3):

  ref = op(fresh copies)                     # same values, never touched again
  res = op(A, B); A[0] = other; B.reverse()  # caller reuses its buffers before yielding to the event loop
  -> opened res must equal opened ref (values and, for fixed point, integral flags)
  res2 = op(A2, B2); await; open A2, B2      # operands must open to the values they were given

The table is keyed by property so that each check runs the operations it owns.
"""
import os
import sys

sys.path.insert(0, os.path.dirname(os.path.abspath(__file__)))
import simnet  # noqa: E402
from simnet import SimNet, Scheduler, Deadlock, PartyError  # noqa: E402


def _vals(kind):
    if kind == 'int':
        return [5, -3, 7, 2, -6, 4], [1, 0, 1, 1, 0, 1], 9
    if kind == 'fxp':
        return [3.0, -2.0, 5.0, 1.0, 4.0, -6.0], [1.0, 0.0, 1.0, 1.0, 0.0, 1.0], 1.5
    raise KeyError(kind)


def _stype(mpc, kind):
    return mpc.SecInt(16) if kind == 'int' else mpc.SecFxp(32, 16)


# name -> (properties, kinds, builder(mpc, T, A, B, c) -> secure result (scalar / list / list of lists), uses_B, bits)
def _ops():
    O = {}

    def op(name, props, kinds=('int', 'fxp'), uses_b=False, bits=False):
        def deco(f):
            O[name] = (props, kinds, f, uses_b, bits)
            return f
        return deco

    @op('all', ('C01',), kinds=('int',), bits=True)
    def _(mpc, T, A, B, c):
        return mpc.all(A)

    @op('any', ('C01',), kinds=('int',), bits=True)
    def _(mpc, T, A, B, c):
        return mpc.any(A)

    @op('sum', ('C01', 'C02'))
    def _(mpc, T, A, B, c):
        return mpc.sum(A)

    @op('prod', ('C01', 'C03'))
    def _(mpc, T, A, B, c):
        return mpc.prod(A[:3])

    @op('prod-full-list', ('C01', 'C03'))
    def _(mpc, T, A, B, c):
        return mpc.prod(A)

    @op('in_prod', ('C01', 'C02'), uses_b=True)
    def _(mpc, T, A, B, c):
        return mpc.in_prod(A, B)

    @op('vector_add', ('C02', 'C03'), uses_b=True)
    def _(mpc, T, A, B, c):
        return mpc.vector_add(A, B)

    @op('vector_sub', ('C02', 'C03'), uses_b=True)
    def _(mpc, T, A, B, c):
        return mpc.vector_sub(A, B)

    @op('scalar_mul', ('C02', 'C03'))
    def _(mpc, T, A, B, c):
        return mpc.scalar_mul(c, A)

    @op('schur_prod', ('C02', 'C03'), uses_b=True)
    def _(mpc, T, A, B, c):
        return mpc.schur_prod(A, B)

    @op('matrix_prod', ('C02', 'C03'), uses_b=True)
    def _(mpc, T, A, B, c):
        return mpc.matrix_prod([A[:3], A[3:]], [B[:2], B[2:4], B[4:]])

    @op('if_else-list', ('C01', 'C03'), uses_b=True)
    def _(mpc, T, A, B, c):
        return mpc.if_else(c > 0, A, B)

    @op('if_swap-list', ('C01', 'C03'), uses_b=True)
    def _(mpc, T, A, B, c):
        x, y = mpc.if_swap(c > 0, A, B)
        return x + y

    @op('min', ('C01', 'C29'))
    def _(mpc, T, A, B, c):
        return mpc.min(A)

    @op('max', ('C01', 'C29'))
    def _(mpc, T, A, B, c):
        return mpc.max(A)

    @op('min_max', ('C29',))
    def _(mpc, T, A, B, c):
        return list(mpc.min_max(A))

    @op('argmin', ('C29',))
    def _(mpc, T, A, B, c):
        i, m_ = mpc.argmin(A)
        return [i, m_]

    @op('argmax', ('C29',))
    def _(mpc, T, A, B, c):
        i, m_ = mpc.argmax(A)
        return [i, m_]

    @op('sorted', ('C29',))
    def _(mpc, T, A, B, c):
        return mpc.sorted(A)

    @op('from_bits', ('C30',), kinds=('int',), bits=True)
    def _(mpc, T, A, B, c):
        return mpc.from_bits(A)

    @op('find', ('C30',), kinds=('int',), bits=True)
    def _(mpc, T, A, B, c):
        return mpc.find(A, 0)

    @op('convert-list', ('C06',))
    def _(mpc, T, A, B, c):
        return mpc.convert(A, mpc.SecInt(32) if T.frac_length == 0 else mpc.SecInt(24))

    def _stat(fn):
        def f(mpc, T, A, B, c):
            from mpyc import statistics as st
            return getattr(st, fn)(A)
        return f
    for fn in ('mean', 'median', 'median_low', 'median_high', 'variance', 'pvariance', 'stdev', 'mode'):
        op('statistics.' + fn, ('C34',))(_stat(fn))

    @op('statistics.quantiles', ('C34',))
    def _(mpc, T, A, B, c):
        from mpyc import statistics as st
        return st.quantiles(A, n=4)

    @op('statistics.covariance', ('C34',), uses_b=True)
    def _(mpc, T, A, B, c):
        from mpyc import statistics as st
        return st.covariance(A, B)

    @op('to_bits-element', ('C30',))
    def _(mpc, T, A, B, c):
        return mpc.to_bits(A[0]) + mpc.to_bits(A[1])      # operands (fixed point: flagged integral) must stay what they were

    @op('lsb-element', ('C30',), kinds=('int',))
    def _(mpc, T, A, B, c):
        return [mpc.lsb(A[0]), mpc.lsb(A[3])]

    @op('unit_vector-element', ('C30',), kinds=('int',))
    def _(mpc, T, A, B, c):
        return mpc.unit_vector(A[3], 4) + mpc.unit_vector(A[3], 4)

    @op('gcp2-elements', ('C30',), kinds=('int',))
    def _(mpc, T, A, B, c):
        return [mpc.gcp2(A[5], A[4]), mpc.gcp2(A[5], A[5])]      # (trailing_zeros itself is only specified up to the lowest 1)

    @op('lsb-of-sum', ('C30',), kinds=('int',))
    def _(mpc, T, A, B, c):
        return mpc.lsb(mpc.sum(A))

    return O


OPS = _ops()


def _flat(r):
    if isinstance(r, (list, tuple)):
        out = []
        for e in r:
            out += _flat(e)
        return out
    return [r]


def run_case(name, kind, m, t, seed, mode):
    """Returns None or a message.  One simulator run per (operation, type)."""
    props, kinds, f, uses_b, bits = OPS[name]
    va, vb, vc = _vals(kind)
    if bits:
        va = [1, 0, 1, 1, 0, 1] if name != 'all' else [1, 1, 1, 1, 1, 1]
        vb = [0, 1, 1, 0, 1, 0]
    other = 0 if bits else (1.5 if kind == 'fxp' else 11)

    async def prog(mpc):
        T = _stype(mpc, kind)
        n = len(va)
        inp = mpc.input([T(v) for v in va + vb + [vc, other]] * 3, senders=0)
        await mpc.gather(inp)
        sets = [inp[k * (2 * n + 2):(k + 1) * (2 * n + 2)] for k in range(3)]

        def split(s):
            return list(s[:n]), list(s[n:2 * n]), s[2 * n], s[2 * n + 1]
        A0, B0, c0, _o = split(sets[0])
        A1, B1, c1, o1 = split(sets[1])
        A2, B2, c2, _o2 = split(sets[2])
        ref = f(mpc, T, A0, B0, c0)                       # never touched again
        res = f(mpc, T, A1, B1, c1)
        A1[0] = o1                                         # the caller reuses its buffers before yielding
        A1[-1] = o1
        if uses_b:
            B1.reverse()
        res2 = f(mpc, T, A2, B2, c2)
        fr, fs, f2 = _flat(ref), _flat(res), _flat(res2)
        flags = [[bool(getattr(e, 'integral', False)) for e in x] for x in (fr, fs)]
        o_ref = await mpc.output(fr)
        o_res = await mpc.output(fs)
        await mpc.output(f2)
        o_a2 = await mpc.output(A2)
        o_b2 = await mpc.output(B2)
        o_c2 = await mpc.output(c2)
        return ([float(v) for v in o_ref], [float(v) for v in o_res], flags, [float(v) for v in o_a2],
                [float(v) for v in o_b2], float(o_c2))
    try:
        res = SimNet(m, t, seed=seed, sched=Scheduler(seed, mode), max_steps=3_000_000).run(prog)
    except (Deadlock, PartyError) as exc:
        return f'{name}[{kind}] m={m}: run does not complete: {type(exc).__name__}: {str(exc)[:200]}'
    if any(r != res[0] for r in res):
        return f'{name}[{kind}] m={m}: parties disagree on the opened values'
    o_ref, o_res, flags, o_a2, o_b2, o_c2 = res[0]
    tol = 0.0 if kind == 'int' else 2 ** -14
    if len(o_ref) != len(o_res) or any(abs(x - y) > tol for x, y in zip(o_ref, o_res)):
        return (f'{name}[{kind}] m={m}: result {o_res} of a call whose list argument was overwritten AFTER the call differs from '
                f'the result {o_ref} on the values the list held at call time')
    if flags[0] != flags[1]:
        return (f'{name}[{kind}] m={m}: integral flags {flags[1]} of a call whose list argument was overwritten after the call '
                f'differ from {flags[0]} (flags are computed at call time, values must be too)')
    if [float(v) for v in va] != o_a2 or (uses_b and [float(v) for v in vb] != o_b2) or float(vc) != o_c2:
        return (f'{name}[{kind}] m={m}: the operation modified its operands: list opens to {o_a2} / {o_b2} / {o_c2}, '
                f'given {va} / {vb} / {vc}')
    return None


def check(ctx, prop):
    """run every operation owned by `prop`; reports violations through ctx"""
    rng = ctx.subrng('alias', prop)
    for name in sorted(OPS):
        props, kinds, f, uses_b, bits = OPS[name]
        if prop not in props:
            continue
        for kind in kinds:
            if prop in ('C02', 'C03') and kind != 'fxp':
                continue
            if prop == 'C01' and kind != 'int':
                continue
            if prop == 'C34' and kind == 'fxp' and name.endswith('mode'):
                continue
            for (m, t) in ((1, 0), (3, 1)):
                seed = rng.randrange(10**9)
                mode = rng.choice(['fifo', 'random', 'starve'])
                msg = run_case(name, kind, m, t, seed, mode)
                ctx.case(('alias', prop, name, kind, m), nontrivial=True)
                ctx.count('alias:' + name)
                if msg:
                    ctx.violation(f'{prop}: caller-owned list: ' + msg,
                                  {'kind': 'alias', 'op': name, 'type': kind, 'm': m, 't': t, 'seed': seed, 'mode': mode})
                    return


def replay(data):
    msg = run_case(data['op'], data['type'], data['m'], data['t'], data['seed'], data['mode'])
    return msg is None, msg or 'ok: result independent of later modifications of the caller\'s lists; operands untouched'
