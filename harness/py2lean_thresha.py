"""Source translator for mpyc/thresha.py (prime fields): Python AST -> Lean 4 definitions (extension of harness/py2lean.py
for list-manipulating code; stdlib `ast` only; py2lean itself is unchanged).

    python harness/py2lean_thresha.py [out.lean]        (reads $VERIF_REPO/mpyc/thresha.py, default /repo)

Output: lean/MpycV/Generated/ThreshaSrc.lean (namespace MpycV.ThreshaSrc), proved equal to the hand-written model
MpycV.Model.Thresha in lean/MpycV/PropsGen/C12Src.lean (mirror + bridge lemmas), so that an edit of thresha.py that
really changes one of the translated functions breaks a proof obligation of C12.

Translated: `_recombination_vector`, `recombine` (two specialisations: x_rs a list / a single point), `random_split`,
`_f_S_i`, `pseudorandom_share`, `pseudorandom_share_zero`.  Not translated: the np_ variants (numpy), `PRF` (hashlib;
its post-processing is modelled by hand, C17).  Extension fields (gfpx polynomials) are NOT covered by this tie.

Translation rules (the trusted part of the tie; everything else is checked by Lean):
* a prime field GF(p) is the parameter `p : Int`; a field element is represented by its value (an `Int`):
  `field.modulus`, `field.order` -> `p`; `field(x)` -> `x % p`; `e.value` -> `e`; `type(p)(c)` -> `c`;
  `a * b`, `a + b`, `a - b` with a field-element operand -> `(a op b) % p` (finfields reduces after every operation);
  `a / b` of field elements -> `PyList.fdiv p a b` = `a * invert(b, p) % p` with `invert` the model of the gmpy stub
  (tied to ITS source by C25); arithmetic on plain ints stays integer arithmetic; `x % p` -> Lean `%` (`Int.emod`,
  equal to Python's `%` for the positive modulus p).
* `isinstance(e, field)` (are the shares field elements or ints) -> `e` is evaluated (IndexError guards) and the answer
  is the Bool parameter `isField`; `isinstance(x_rs, list)` / `isinstance(x_rs, tuple)` are decided statically per
  specialisation; the `@functools.cache` decorator is ignored (pure functions).
* lists: literals, `[e] * k` -> `List.replicate`, `+` -> `++`, `len`, `x.append(e)`, `l[i]` / `l[i][j]` reads and (augmented)
  assignments with Python index semantics (`pyIdxOk` guard -> IndexError, negative indices wrap: `pyGet`, `pySet`),
  comprehensions over range / a list with an optional filter (`List.map`/`List.filter`, `pyMapM` if the element may
  raise), `x in S` / `x not in S`, tuples -> products, `None` placeholders in `[None] * k` -> 0,
  `xs, shares = list(zip(*points))` -> `points.map fst`, `points.map snd` (ValueError if `points` is empty).
* `for target in range(..) | list | enumerate(list) | d.items()` -> ONE call of `PyList.pyFor` on the tuple of loop-carried
  variables (variables assigned in the loop that are bound before it).
* `secrets.randbelow(b)` -> reads from the explicit parameter `stream` in call order: `[secrets.randbelow(b) for _ in
  range(k)]` -> `pyDraw b k stream` (k values, each required to lie in range(b); `stream` becomes the rest).
* `prf_S(uci, k)` (a PRF object of the dict `prfs`) -> the first `k` outputs `prf_S.take k` of that subset's output list
  (parameter); `uci` is dropped (the outputs are the parameter).
* exceptions -> `Except TErr`.  An unsupported construct never crashes: the function is emitted as `f.untranslated`.
"""
import ast
import os
import sys

HERE = os.path.dirname(os.path.abspath(__file__))
if HERE not in sys.path:
    sys.path.insert(0, HERE)
from py2lean import Unsupported, ind, lname as _lname, tuple_pat  # noqa: E402

I, FE, B, PRF = 'I', 'FE', 'B', 'PRF'


def L(t):
    return ('L', t)


def T(*ts):
    return ('T',) + tuple(ts)


def lname(v):
    return _lname(v)


def norm(t):
    """type as stored in a container / compared: field elements are represented by their values"""
    if t == FE:
        return I
    if isinstance(t, tuple):
        return (t[0],) + tuple(norm(x) for x in t[1:])
    return t


def lty(t):
    t = norm(t)
    if t == I:
        return 'Int'
    if t == B:
        return 'Bool'
    if t == PRF:
        return 'List Int'
    if t[0] == 'L':
        return f'List ({lty(t[1])})' if isinstance(t[1], tuple) or t[1] == PRF else f'List {lty(t[1])}'
    if t[0] == 'T':
        return '(' + ' × '.join(lty(x) for x in t[1:]) + ')'
    raise Unsupported(f'type {t}')


def elem(t):
    if t == PRF:
        return I
    if isinstance(t, tuple) and t[0] == 'L':
        return t[1]
    raise Unsupported(f'indexing / iterating something of type {t}')


POINTS = L(T(I, L(I)))
PRFS = L(T(L(I), PRF))
# lean name, python name, parameters after `field` [(name, type, python kind)] (type None = dropped), return type, flags
SPECS = [
    dict(lean='recombination_vector', py='_recombination_vector', empty={'vector': L(I)},
         params=[('xs', L(I), 'tuple'), ('x_r', I, None)], ret=L(I)),
    dict(lean='recombine_list', py='recombine', isfield=True,
         params=[('points', POINTS, 'list'), ('x_rs', L(I), 'list')], ret=L(L(I))),
    dict(lean='recombine_one', py='recombine', isfield=True,
         params=[('points', POINTS, 'list'), ('x_rs', I, None)], ret=L(I)),
    dict(lean='random_split', py='random_split', isfield=True, stream=True,
         params=[('s', L(I), 'list'), ('t', I, None), ('m', I, None)], ret=L(L(I))),
    dict(lean='f_S_i', py='_f_S_i', params=[('m', I, None), ('i', I, None), ('S', L(I), 'tuple')], ret=I),
    dict(lean='pseudorandom_share', py='pseudorandom_share',
         params=[('m', I, None), ('i', I, None), ('prfs', PRFS, 'dict'), ('uci', None, None), ('n', I, None)], ret=L(I)),
    dict(lean='pseudorandom_share_zero', py='pseudorandom_share_zero',
         params=[('m', I, None), ('i', I, None), ('prfs', PRFS, 'dict'), ('uci', None, None), ('n', I, None)], ret=L(I)),
]
ORDER = [s['lean'] for s in SPECS]
# the `isField` argument at call sites inside functions that have no such parameter (the shares built there are ints)
CALL_ISFIELD = {('_f_S_i', 'recombine'): 'false'}


class TFn:
    def __init__(self, spec, node):
        self.spec = spec
        self.node = node
        self.fresh = 0

    def newvar(self, base='v'):
        self.fresh += 1
        return f'{base}{self.fresh}'

    # ------------------------------------------------------------------ expressions
    def ex(self, node, env, pre):
        """-> (lean string, type); `pre` collects, in evaluation order, ('g', cond, err) guards and ('b', pat, call) binds"""
        if isinstance(node, ast.Constant):
            if isinstance(node.value, bool):
                return ('true' if node.value else 'false'), B
            if isinstance(node.value, int):
                return (str(node.value) if node.value >= 0 else f'({node.value})'), I
            if node.value is None:
                return '0', I                       # placeholder in `[None] * k`
            raise Unsupported(f'constant {node.value!r}')
        if isinstance(node, ast.Name):
            if node.id not in env:
                raise Unsupported(f'name {node.id} is not bound here (line {node.lineno})')
            return env[node.id][0], env[node.id][1]
        if isinstance(node, ast.Attribute):
            if isinstance(node.value, ast.Name) and node.value.id == 'field' and node.attr in ('modulus', 'order'):
                return 'p', I
            if node.attr == 'value':
                e, t = self.ex(node.value, env, pre)
                if t not in (I, FE):
                    raise Unsupported('.value of something that is not a field element')
                return e, I
            raise Unsupported(f'attribute .{node.attr}')
        if isinstance(node, ast.UnaryOp) and isinstance(node.op, ast.USub):
            a, t = self.ex(node.operand, env, pre)
            if t != I:
                raise Unsupported('unary minus on a non-int')
            return f'(-{a})', I
        if isinstance(node, ast.UnaryOp) and isinstance(node.op, ast.Not):
            return f'decide ({self.cond(node, env, pre)})', B
        if isinstance(node, (ast.Compare, ast.BoolOp)):
            return f'decide ({self.cond(node, env, pre)})', B
        if isinstance(node, ast.BinOp):
            return self.binop(node, env, pre)
        if isinstance(node, ast.Subscript):
            a, ta = self.ex(node.value, env, pre)
            i, ti = self.ex(node.slice, env, pre)
            if ti != I:
                raise Unsupported('index that is not an int')
            et = elem(ta)
            pre.append(('g', f'pyIdxOk {a}.length {i} = false', '.indexError'))
            return f'(pyGet {a} {i})', et
        if isinstance(node, ast.Tuple):
            parts = [self.ex(e, env, pre) for e in node.elts]
            if len(parts) == 1:                      # `(x_rs,)`: a one-element tuple is a one-element sequence
                return f'[{parts[0][0]}]', L(norm(parts[0][1]))
            return '(' + ', '.join(p for p, _ in parts) + ')', T(*[norm(t) for _, t in parts])
        if isinstance(node, ast.List):
            parts = [self.ex(e, env, pre) for e in node.elts]
            if not parts:
                raise Unsupported('empty list literal in an expression (element type unknown)')
            t0 = norm(parts[0][1])
            if any(norm(t) != t0 for _, t in parts):
                raise Unsupported('list literal with mixed element types')
            return '[' + ', '.join(p for p, _ in parts) + ']', L(t0)
        if isinstance(node, ast.ListComp):
            return self.listcomp(node, env, pre)
        if isinstance(node, ast.Call):
            return self.call(node, env, pre)
        raise Unsupported(f'expression {type(node).__name__} (line {getattr(node, "lineno", "?")})')

    def binop(self, node, env, pre):
        op = node.op
        a, ta = self.ex(node.left, env, pre)
        b, tb = self.ex(node.right, env, pre)
        lists = isinstance(ta, tuple) and ta[0] == 'L'
        if lists and isinstance(op, ast.Add):
            if norm(ta) != norm(tb):
                raise Unsupported('concatenation of lists of different types')
            return f'({a} ++ {b})', norm(ta)
        if lists and isinstance(op, ast.Mult) and tb == I:
            return f'(List.replicate ({b}).toNat {a[1:-1]})' if a.startswith('[') and ',' not in a else \
                f'(List.flatten (List.replicate ({b}).toNat {a}))', norm(ta)
        if ta not in (I, FE) or tb not in (I, FE):
            raise Unsupported(f'operator {type(op).__name__} on {ta}, {tb}')
        fe = FE in (ta, tb)
        sym = {ast.Add: '+', ast.Sub: '-', ast.Mult: '*'}.get(type(op))
        if sym:
            return (f'(({a} {sym} {b}) % p)', FE) if fe else (f'({a} {sym} {b})', I)
        if isinstance(op, ast.Div):
            if ta != FE:
                raise Unsupported('true division of plain ints')
            v = self.newvar()
            pre.append(('b', v, f'fdiv p {a} {b}'))
            return v, FE
        if isinstance(op, ast.Mod):
            if fe or b != 'p':
                raise Unsupported('% other than reduction modulo the field modulus')
            return f'({a} % p)', I
        raise Unsupported(f'binary operator {type(op).__name__}')

    def iterable(self, it, env, pre):
        """-> (lean list expression, element type)"""
        if isinstance(it, ast.Call) and isinstance(it.func, ast.Name) and it.func.id == 'range' and not it.keywords:
            if len(it.args) == 1:
                b, tb = self.ex(it.args[0], env, pre)
                a, ta = '0', I
            elif len(it.args) == 2:
                a, ta = self.ex(it.args[0], env, pre)
                b, tb = self.ex(it.args[1], env, pre)
            else:
                raise Unsupported('range with a step')
            if ta != I or tb != I:
                raise Unsupported('range over non-ints')
            return f'(pyRange {a} {b})', I
        if isinstance(it, ast.Call) and isinstance(it.func, ast.Name) and it.func.id == 'enumerate' and len(it.args) == 1:
            e, t = self.ex(it.args[0], env, pre)
            return f'(pyEnum {e})', T(I, norm(elem(t)))
        if isinstance(it, ast.Call) and isinstance(it.func, ast.Attribute) and it.func.attr == 'items' and not it.args:
            e, t = self.ex(it.func.value, env, pre)
            if not (isinstance(it.func.value, ast.Name) and env[it.func.value.id][2] == 'dict'):
                raise Unsupported('.items() of something that is not a dict parameter')
            return e, elem(t)
        if isinstance(it, ast.Name):
            e, t = self.ex(it, env, pre)
            if env[it.id][2] == 'dict':
                raise Unsupported('iteration over the keys of a dict')
            return e, elem(t)
        raise Unsupported(f'iteration over {ast.dump(it)[:60]}')

    def bind_target(self, target, ty, env):
        """Lean pattern for a loop/comprehension target; binds the names in env"""
        if isinstance(target, ast.Name):
            env[target.id] = (lname(target.id) if target.id != '_' else 'i_', ty, kind_of_type(ty))
            return env[target.id][0]
        if isinstance(target, ast.Tuple) and isinstance(ty, tuple) and ty[0] == 'T' and len(ty) - 1 == len(target.elts):
            return '(' + ', '.join(self.bind_target(t, c, env) for t, c in zip(target.elts, ty[1:])) + ')'
        raise Unsupported('loop / assignment target')

    def listcomp(self, node, env, pre):
        if len(node.generators) != 1 or node.generators[0].is_async or len(node.generators[0].ifs) > 1:
            raise Unsupported('comprehension with several generators / conditions')
        g = node.generators[0]
        xs, et = self.iterable(g.iter, env, pre)
        env2 = dict(env)
        pat = self.bind_target(g.target, et, env2)
        lam = f'fun ({pat} : {lty(et)}) =>' if isinstance(g.target, ast.Name) else f'fun (it_ : {lty(et)}) => match it_ with | {pat} =>'
        if g.ifs:
            pre_c = []
            c = self.cond(g.ifs[0], env2, pre_c)
            if pre_c:
                raise Unsupported('comprehension condition that may raise')
            xs = f'(List.filter ({lam} decide ({c})) {xs})'
        pre_e = []
        e, t = self.ex(node.elt, env2, pre_e)
        if not pre_e:
            return f'(List.map ({lam} {e}) {xs})', L(norm(t))
        v = self.newvar()
        body = self.wrap(pre_e, f'.ok ({e})')
        pre.append(('b', v, f'pyMapM {xs} ({lam}\n{ind(body, 4)})'))
        return v, L(norm(t))

    def call(self, node, env, pre):
        f, args = node.func, node.args
        if node.keywords:
            raise Unsupported('keyword arguments')
        if isinstance(f, ast.Name) and f.id == 'field' and len(args) == 1:
            e, t = self.ex(args[0], env, pre)
            if t not in (I, FE):
                raise Unsupported('field(...) of a non-int')
            return f'({e} % p)', FE
        if isinstance(f, ast.Call) and isinstance(f.func, ast.Name) and f.func.id == 'type' and len(f.args) == 1 \
                and len(args) == 1 and self.ex(f.args[0], env, [])[0] == 'p':
            e, t = self.ex(args[0], env, pre)          # type(p)(c): the int c
            if t != I:
                raise Unsupported('type(p)(...) of a non-int')
            return e, I
        if isinstance(f, ast.Name) and f.id == 'len' and len(args) == 1:
            e, t = self.ex(args[0], env, pre)
            elem(t)
            return f'({e}.length : Int)', I
        if isinstance(f, ast.Name) and f.id == 'isinstance' and len(args) == 2:
            if isinstance(args[1], ast.Name) and args[1].id == 'field':
                if not self.spec.get('isfield'):
                    raise Unsupported('isinstance(., field) in a function without the isField parameter')
                self.ex(args[0], env, pre)             # evaluated for its exceptions
                return 'isField', B
            raise Unsupported('isinstance in an expression')
        if isinstance(f, ast.Name) and f.id in env and env[f.id][1] == PRF and len(args) == 2:
            k, tk = self.ex(args[1], env, pre)         # prf_S(uci, k): the first k outputs
            if tk != I:
                raise Unsupported('PRF count that is not an int')
            return f'(List.take ({k}).toNat {env[f.id][0]})', L(I)
        if isinstance(f, ast.Name) and any(s['py'] == f.id for s in SPECS):
            return self.call_translated(f.id, args, env, pre)
        raise Unsupported(f'call of {ast.dump(f)[:60]}')

    def call_translated(self, pyname, args, env, pre):
        if not (args and isinstance(args[0], ast.Name) and args[0].id == 'field'):
            raise Unsupported(f'{pyname} called with another field')
        vals = [self.ex(a, env, pre) for a in args[1:]]
        for spec in SPECS:
            if spec['py'] != pyname:
                continue
            ps = spec['params']
            if len(ps) != len(vals):
                continue
            if all(pt is None or norm(pt) == norm(vt) for (_n, pt, _k), (_v, vt) in zip(ps, vals)):
                break
        else:
            raise Unsupported(f'no specialisation of {pyname} for argument types {[t for _, t in vals]}')
        argv = [v for (_n, pt, _k), (v, _t) in zip(ps, vals) if pt is not None]
        extra = ['p']
        if spec.get('isfield'):
            if self.spec.get('isfield'):
                extra.append('isField')
            else:
                key = (self.spec['py'], pyname)
                if key not in CALL_ISFIELD:
                    raise Unsupported(f'call of {pyname}: kind of the shares unknown')
                extra.append(CALL_ISFIELD[key])
        if spec.get('stream'):
            raise Unsupported('call of a function that draws randomness')
        v = self.newvar()
        pre.append(('b', v, f'{spec["lean"]} ' + ' '.join(extra + argv)))
        return v, spec['ret']

    def cond(self, node, env, pre):
        """-> decidable Lean proposition, or the strings 'True' / 'False' for statically decided tests"""
        if isinstance(node, ast.BoolOp):
            # Python evaluates the operands left to right and stops early: the IndexError guards of a later operand apply
            # only if the earlier operands did not decide the result
            is_and = isinstance(node.op, ast.And)
            parts = []
            for v in node.values:
                loc = []
                c = self.cond(v, env, loc)
                for item in loc:
                    if item[0] != 'g':
                        raise Unsupported('call with error result in a short-circuited operand')
                    if parts:
                        prev = '(' + (' ∧ ' if is_and else ' ∨ ').join(parts) + ')'
                        gate = prev if is_and else f'¬ {prev}'
                        pre.append(('g', f'({gate} ∧ ({item[1]}))', item[2]))
                    else:
                        pre.append(item)
                parts.append(c)
            if any(p in ('True', 'False') for p in parts):
                raise Unsupported('static test inside and/or')
            return '(' + (' ∧ ' if is_and else ' ∨ ').join(parts) + ')'
        if isinstance(node, ast.UnaryOp) and isinstance(node.op, ast.Not):
            c = self.cond(node.operand, env, pre)
            if c in ('True', 'False'):
                return 'False' if c == 'True' else 'True'
            return f'¬ ({c})'
        if isinstance(node, ast.Call) and isinstance(node.func, ast.Name) and node.func.id == 'isinstance' \
                and len(node.args) == 2 and isinstance(node.args[1], ast.Name) and node.args[1].id in ('list', 'tuple'):
            a = node.args[0]
            if not (isinstance(a, ast.Name) and a.id in env):
                raise Unsupported('isinstance of a non-variable')
            kind = env[a.id][2]
            if kind not in ('list', 'tuple', 'int'):
                raise Unsupported(f'cannot decide isinstance({a.id}, {node.args[1].id}) statically')
            return 'True' if kind == node.args[1].id else 'False'
        if isinstance(node, ast.Compare):
            parts = []
            left = node.left
            for op, right in zip(node.ops, node.comparators):
                l_, tl = self.ex(left, env, pre)
                r_, tr = self.ex(right, env, pre)
                if isinstance(op, (ast.In, ast.NotIn)):
                    if norm(tl) != I or norm(tr) != L(I):
                        raise Unsupported('in / not in something that is not a list of ints')
                    parts.append(f'{l_} ∈ {r_}' if isinstance(op, ast.In) else f'¬ ({l_} ∈ {r_})')
                else:
                    if norm(tl) != I or norm(tr) != I:
                        raise Unsupported('comparison of non-ints')
                    sym = {ast.Eq: '=', ast.NotEq: '≠', ast.Lt: '<', ast.LtE: '≤', ast.Gt: '>', ast.GtE: '≥'}.get(type(op))
                    if sym is None:
                        raise Unsupported('comparison operator')
                    parts.append(f'{l_} {sym} {r_}')
                left = right
            return parts[0] if len(parts) == 1 else '(' + ' ∧ '.join(parts) + ')'
        e, t = self.ex(node, env, pre)
        if t == B:
            return f'{e} = true'
        if t == I:
            return f'{e} ≠ 0'
        raise Unsupported('truth value of a non-bool')

    # ------------------------------------------------------------------ statements
    @staticmethod
    def wrap(pre, body):
        out = body
        for item in reversed(pre):
            if item[0] == 'g':
                out = f'if {item[1]} then .error {item[2]} else\n{out}'
            else:
                out = f'match {item[2]} with\n| .error exc_ => .error exc_\n| .ok {item[1]} =>\n{ind(out, 2)}'
        return out

    @staticmethod
    def is_draw(node):
        return (isinstance(node, ast.Call) and isinstance(node.func, ast.Attribute) and node.func.attr == 'randbelow'
                and isinstance(node.func.value, ast.Name) and node.func.value.id == 'secrets')

    def has_draw(self, stmts):
        return any(self.is_draw(n) for s in stmts for n in ast.walk(s))

    def assigned(self, stmts):
        out = []

        def add(v):
            if v not in out:
                out.append(v)

        def tgt(t):
            if isinstance(t, ast.Name):
                add(t.id)
            elif isinstance(t, (ast.Tuple, ast.List)):
                for e in t.elts:
                    tgt(e)
            elif isinstance(t, ast.Subscript):
                b = t.value
                while isinstance(b, ast.Subscript):
                    b = b.value
                if not isinstance(b, ast.Name):
                    raise Unsupported('assignment target')
                add(b.id)
            else:
                raise Unsupported('assignment target')

        def walk(ss):
            for s in ss:
                if any(self.is_draw(n) for n in ast.walk(s)) and not isinstance(s, (ast.If, ast.For)):
                    add('stream')
                if isinstance(s, ast.Assign):
                    for t in s.targets:
                        tgt(t)
                elif isinstance(s, ast.AugAssign):
                    tgt(s.target)
                elif isinstance(s, ast.Expr) and isinstance(s.value, ast.Call) and isinstance(s.value.func, ast.Attribute) \
                        and s.value.func.attr == 'append' and isinstance(s.value.func.value, ast.Name):
                    add(s.value.func.value.id)
                elif isinstance(s, ast.If):
                    walk(s.body)
                    walk(s.orelse)
                elif isinstance(s, ast.For):
                    walk(s.body)
                elif isinstance(s, ast.While):
                    raise Unsupported('while loop')
        walk(stmts)
        return out

    def store(self, target, value_str, value_ty, env, pre):
        """`target = value` for a Name / Subscript target -> Lean `let` line; updates env"""
        if isinstance(target, ast.Name):
            env[target.id] = (lname(target.id), value_ty, env.get(target.id, (0, 0, None))[2])
            return f'let {lname(target.id)} := {value_str}'
        if isinstance(target, ast.Subscript):
            if isinstance(target.value, ast.Name):                           # a[i] = v
                a, ta = self.ex(target.value, env, pre)
                i, ti = self.ex(target.slice, env, pre)
                if ti != I or norm(elem(ta)) != norm(value_ty):
                    raise Unsupported('list element assignment of another type')
                pre.append(('g', f'pyIdxOk {a}.length {i} = false', '.indexError'))
                return f'let {a} := pySet {a} {i} {value_str}'
            if isinstance(target.value, ast.Subscript) and isinstance(target.value.value, ast.Name):    # a[i][j] = v
                a, ta = self.ex(target.value.value, env, pre)
                i, ti = self.ex(target.value.slice, env, pre)
                j, tj = self.ex(target.slice, env, pre)
                if ti != I or tj != I or norm(elem(elem(ta))) != norm(value_ty):
                    raise Unsupported('matrix element assignment of another type')
                pre.append(('g', f'pyIdxOk {a}.length {i} = false', '.indexError'))
                pre.append(('g', f'pyIdxOk (pyGet {a} {i}).length {j} = false', '.indexError'))
                return f'let {a} := pySet {a} {i} (pySet (pyGet {a} {i}) {j} {value_str})'
        raise Unsupported('assignment target')

    def block(self, stmts, env, k):
        if not stmts:
            return k(env)
        s, rest = stmts[0], stmts[1:]
        env = dict(env)
        if isinstance(s, ast.Expr) and isinstance(s.value, ast.Constant) and isinstance(s.value.value, str):
            return self.block(rest, env, k)
        if isinstance(s, ast.Pass):
            return self.block(rest, env, k)
        if isinstance(s, ast.Assign):
            if len(s.targets) != 1:
                raise Unsupported('chained assignment')
            target, value = s.targets[0], s.value
            pre = []
            # xs, shares = list(zip(*points))
            if (isinstance(target, ast.Tuple) and len(target.elts) == 2 and all(isinstance(e, ast.Name) for e in target.elts)
                    and isinstance(value, ast.Call) and isinstance(value.func, ast.Name) and value.func.id == 'list'
                    and len(value.args) == 1 and isinstance(value.args[0], ast.Call)
                    and isinstance(value.args[0].func, ast.Name) and value.args[0].func.id == 'zip'
                    and len(value.args[0].args) == 1 and isinstance(value.args[0].args[0], ast.Starred)):
                pts, tp = self.ex(value.args[0].args[0].value, env, pre)
                if norm(tp) != POINTS:
                    raise Unsupported('zip(*x) of something that is not a list of (x, shares) pairs')
                a, b = target.elts[0].id, target.elts[1].id
                env[a] = (lname(a), L(I), 'tuple')
                env[b] = (lname(b), L(L(I)), 'tuple')
                pre.append(('g', f'{pts} = []', '.valueError'))
                body = (f'let {lname(a)} := List.map Prod.fst {pts}\nlet {lname(b)} := List.map Prod.snd {pts}\n'
                        + self.block(rest, env, k))
                return self.wrap(pre, body)
            # c = [secrets.randbelow(order) for _ in range(t)]
            if isinstance(value, ast.ListComp) and self.is_draw(value.elt):
                g = value.generators[0]
                if not (len(value.generators) == 1 and not g.ifs and isinstance(g.iter, ast.Call)
                        and isinstance(g.iter.func, ast.Name) and g.iter.func.id == 'range' and len(g.iter.args) == 1
                        and isinstance(target, ast.Name) and len(value.elt.args) == 1):
                    raise Unsupported('randomness drawn in an unsupported pattern')
                if not self.spec.get('stream'):
                    raise Unsupported('randomness drawn in a function without stream parameter')
                cnt, tc = self.ex(g.iter.args[0], env, pre)
                bnd, tb = self.ex(value.elt.args[0], env, pre)
                if tc != I or tb != I:
                    raise Unsupported('randbelow arguments')
                env[target.id] = (lname(target.id), L(I), 'list')
                pre.append(('b', f'({lname(target.id)}, stream)', f'pyDraw {bnd} {cnt} stream'))
                return self.wrap(pre, self.block(rest, env, k))
            if self.has_draw([s]):
                raise Unsupported('randomness drawn in an unsupported pattern')
            if isinstance(value, ast.List) and not value.elts and isinstance(target, ast.Name):
                t = self.spec.get('empty', {}).get(target.id)     # element type of an empty list literal: annotation
                if t is None:
                    raise Unsupported(f'empty list literal assigned to {target.id}: element type unknown')
                env[target.id] = (lname(target.id), t, 'list')
                return f'let {lname(target.id)} := ([] : {lty(t)})\n' + self.block(rest, env, k)
            e, t = self.ex(value, env, pre)
            if isinstance(target, ast.Tuple):
                pat = self.bind_target(target, t, env)
                line = f'let {pat} := {e}'
            else:
                line = self.store(target, e, t, env, pre)
                if isinstance(target, ast.Name):
                    env[target.id] = (lname(target.id), t, kind_of_value(value, env, t))
            return self.wrap(pre, line + '\n' + self.block(rest, env, k))
        if isinstance(s, ast.AugAssign):
            if self.has_draw([s]):
                raise Unsupported('randomness drawn in an unsupported pattern')
            pre = []
            load = ast.parse(ast.unparse(s.target), mode='eval').body
            value = ast.BinOp(left=load, op=s.op, right=s.value)
            ast.copy_location(value, s)
            ast.fix_missing_locations(value)
            e, t = self.ex(value, env, pre)
            if isinstance(s.target, ast.Subscript):
                # the index guards of the read are those of the write: drop the duplicates the store would add
                pre2 = []
                line = self.store(s.target, e, t, env, pre2)
            else:
                line = self.store(s.target, e, t, env, pre)
            return self.wrap(pre, line + '\n' + self.block(rest, env, k))
        if isinstance(s, ast.Expr) and isinstance(s.value, ast.Call) and isinstance(s.value.func, ast.Attribute) \
                and s.value.func.attr == 'append' and isinstance(s.value.func.value, ast.Name) and len(s.value.args) == 1:
            pre = []
            nm = s.value.func.value.id
            a, ta = self.ex(s.value.func.value, env, pre)
            e, t = self.ex(s.value.args[0], env, pre)
            if ta == ('L', None):
                env[nm] = (a, L(norm(t)), 'list')
            elif norm(elem(ta)) != norm(t):
                raise Unsupported('append of another element type')
            return self.wrap(pre, f'let {a} := {a} ++ [{e}]\n' + self.block(rest, env, k))
        if isinstance(s, ast.Return):
            if s.value is None:
                raise Unsupported('return without value')
            pre = []
            e, t = self.ex(s.value, env, pre)
            if norm(t) != norm(self.spec['ret']):
                raise Unsupported(f'return type {t}, expected {self.spec["ret"]}')
            if rest:
                raise Unsupported('statements after return')
            return self.wrap(pre, f'.ok ({e})')
        if isinstance(s, ast.If):
            return self.if_stmt(s, rest, env, k)
        if isinstance(s, ast.For):
            return self.for_stmt(s, rest, env, k)
        raise Unsupported(f'statement {type(s).__name__} (line {s.lineno})')

    def contains_return(self, stmts):
        return any(isinstance(n, (ast.Return, ast.Break, ast.Continue, ast.Raise)) for s in stmts for n in ast.walk(s))

    def if_stmt(self, s, rest, env, k):
        pre = []
        c = self.cond(s.test, env, pre)
        if c in ('True', 'False'):
            return self.wrap(pre, self.block((s.body if c == 'True' else s.orelse) + rest, env, k))
        if len(s.body) == 1 and isinstance(s.body[0], ast.Raise) and not s.orelse and s.body[0].exc is not None:
            # `if c: raise E(...)` -> error guard (the message is not modelled)
            exc = s.body[0].exc
            name = exc.func.id if isinstance(exc, ast.Call) and isinstance(exc.func, ast.Name) else getattr(exc, 'id', None)
            err = {'ValueError': '.valueError', 'IndexError': '.indexError'}.get(name)
            if err is None:
                raise Unsupported(f'raise of {name}')
            return self.wrap(pre + [('g', c, err)], self.block(rest, env, k))
        if self.contains_return(s.body + s.orelse):
            raise Unsupported('return / break / raise inside an if statement')
        inthen, inelse = self.assigned(s.body), self.assigned(s.orelse)
        vars_ = [v for v in self.assigned(s.body + s.orelse) if v in env or (v in inthen and v in inelse)]
        if not vars_:
            return self.wrap(pre, self.block(rest, env, k))
        results = {}

        def kk(e2):
            for v in vars_:
                results.setdefault(v, e2[v])
            return 'JOIN(' + ', '.join(e2[v][0] for v in vars_) + ')'
        a = self.block(s.body, env, kk)
        b = self.block(s.orelse, env, kk)
        pure = not any(w in a + b for w in ('.error', 'match ', '.ok'))
        conv = (lambda t: t.replace('JOIN(', '(')) if pure else (lambda t: t.replace('JOIN(', '.ok ('))
        env2 = dict(env)
        for v in vars_:
            env2[v] = (lname(v),) + tuple(results[v][1:])
        pat = tuple_pat([lname(v) for v in vars_])
        cont = self.block(rest, env2, k)
        ite = f'if {c} then\n{ind(conv(a), 2)}\nelse\n{ind(conv(b), 2)}'
        if pure:
            return self.wrap(pre, f'let {pat} :=\n{ind(ite, 2)}\n{cont}')
        ty = ' × '.join(lty(results[v][1]) for v in vars_)
        return self.wrap(pre, f'match (show Except TErr ({ty}) from\n{ind(ite, 2)}) with\n'
                              f'| .error exc_ => .error exc_\n| .ok {pat} =>\n{ind(cont, 2)}')

    def for_stmt(self, s, rest, env, k):
        if s.orelse:
            raise Unsupported('for loop with else clause')
        if self.contains_return(s.body):
            raise Unsupported('return / break / continue inside a for loop')
        pre = []
        xs, et = self.iterable(s.iter, env, pre)
        env_b = dict(env)
        ipat = self.bind_target(s.target, et, env_b)
        tnames = [n.id for n in ast.walk(s.target) if isinstance(n, ast.Name)]
        state = [v for v in self.assigned(s.body) if v in env and v not in tnames]
        if 'stream' in state and not self.spec.get('stream'):
            raise Unsupported('randomness drawn in a function without stream parameter')
        if not state:
            raise Unsupported('for loop without loop-carried variable')
        sty = ' × '.join(lty(env[v][1]) for v in state)
        spat = tuple_pat([env[v][0] for v in state])

        def kb(e2):
            for v in state:
                if norm(e2[v][1]) != norm(env[v][1]):
                    raise Unsupported(f'loop changes the type of {v}')
            return '.ok ' + ('(' + ', '.join(e2[v][0] for v in state) + ')' if len(state) > 1 else e2[state[0]][0])
        inner = self.block(s.body, env_b, kb)
        cont = self.block(rest, env, k)
        return self.wrap(pre, f'match pyFor (ε := TErr) (σ := {sty}) {xs} {spat} (fun it_ st_ => match it_, st_ with\n'
                              f'    | {ipat}, {spat} =>\n{ind(inner, 6)}) with\n'
                              f'| .error exc_ => .error exc_\n| .ok {spat} =>\n{ind(cont, 2)}')

    def translate(self):
        env = {'field': ('field', 'FIELD', None)}
        args = [a.arg for a in self.node.args.args]
        want = ['field'] + [n for n, _t, _k in self.spec['params']]
        if args != want or self.node.args.vararg or self.node.args.kwarg or self.node.args.kwonlyargs:
            raise Unsupported(f'parameters {args}, expected {want}')
        for n, t, kd in self.spec['params']:
            if t is not None:
                env[n] = (lname(n), t, kd if kd else kind_of_type(t))
        if self.spec.get('stream'):
            env['stream'] = ('stream', L(I), 'list')
        if self.spec.get('isfield'):
            env['isField'] = ('isField', B, None)

        def k(_env):
            raise Unsupported('function can end without return')
        return self.block(self.node.body, env, k)


def kind_of_type(t):
    if t == I:
        return 'int'
    return None


def kind_of_value(value, env, t):
    if isinstance(value, ast.Tuple):
        return 'tuple'
    if isinstance(value, (ast.List, ast.ListComp)):
        return 'list'
    if isinstance(value, ast.Name) and value.id in env:
        return env[value.id][2]
    if isinstance(value, ast.BinOp) and isinstance(t, tuple) and t[0] == 'L':
        return 'list'
    return kind_of_type(t)


def lean_sig(spec):
    ps = ['(p : Int)']
    if spec.get('isfield'):
        ps.append('(isField : Bool)')
    for n, t, _k in spec['params']:
        if t is not None:
            ps.append(f'({lname(n)} : {lty(t)})')
    if spec.get('stream'):
        ps.append('(stream : List Int)')
    return ' '.join(ps), lty(spec['ret'])


HEADER = '''/- GENERATED by harness/py2lean_thresha.py from {src} — do not edit.
mpyc/thresha.py over a prime field GF(p), translated statement by statement (rules: docstring of the translator). -/
import MpycV.Model.PyList
namespace {ns}
open MpycV.PyList
set_option linter.unusedVariables false

'''


def find_functions(tree):
    found = {}
    for node in tree.body:
        if isinstance(node, ast.FunctionDef):
            found.setdefault(node.name, []).append(node)
    return found


def translate_source(text, srcname='mpyc/thresha.py', ns='MpycV.ThreshaSrc'):
    """-> (lean file text, {lean function name: error message} for what could not be translated)"""
    out = [HEADER.format(src=srcname, ns=ns)]
    problems = {}
    try:
        found = find_functions(ast.parse(text))
    except SyntaxError as exc:
        found = {}
        problems['*'] = f'syntax error: {exc}'
    for spec in SPECS:
        name = spec['lean']
        try:
            nodes = found.get(spec['py'], [])
            if len(nodes) != 1:
                raise Unsupported(f'{len(nodes)} definitions of {spec["py"]} found')
            body = TFn(spec, nodes[0]).translate()
            sig, ret = lean_sig(spec)
            out.append(f'-- ≙ thresha.py:{nodes[0].lineno} `{spec["py"]}`')
            out.append(f'def {name} {sig} : Except TErr ({ret}) :=\n{ind(body, 2)}\n')
        except Unsupported as exc:
            problems[name] = str(exc)
        except RecursionError:
            problems[name] = 'translator recursion limit'
        except Exception as exc:   # never crash the checker
            problems[name] = f'translator error {type(exc).__name__}: {exc}'
        if name in problems:
            msg = problems[name].replace('"', "'").replace('\n', ' ')
            out.append(f'/-- NOT TRANSLATED: {msg} -/\ndef {name}.untranslated : String := "py2lean_thresha: {name}: {msg}"\n')
    out.append(f'end {ns}\n')
    return '\n'.join(out), problems


def main():
    import repo_path
    src = os.path.join(repo_path.REPO, 'mpyc', 'thresha.py')
    text, problems = translate_source(open(src).read())
    dst = sys.argv[1] if len(sys.argv) > 1 else os.path.join(os.path.dirname(HERE), 'lean', 'MpycV', 'Generated',
                                                             'ThreshaSrc.lean')
    old = open(dst).read() if os.path.exists(dst) else None
    if old != text:
        with open(dst, 'w') as f:
            f.write(text)
    for k, v in problems.items():
        print(f'py2lean_thresha: {k}: {v}')
    return 0


if __name__ == '__main__':
    sys.exit(main())
