"""Make `import mpyc` resolve to the tree under test: $VERIF_REPO (default /repo)."""
import os
import sys

REPO = os.environ.get('VERIF_REPO', '/repo')
if sys.path[:1] != [REPO]:
    sys.path.insert(0, REPO)
if 'mpyc' in sys.modules:
    _f = getattr(sys.modules['mpyc'], '__file__', '') or ''
    assert os.path.abspath(_f).startswith(os.path.abspath(REPO)), f'mpyc already imported from {_f}'
