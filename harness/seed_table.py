#!/venv/bin/python
"""Markdown table of the seeded breaking changes and which checks catch them (from seeded/*/meta.json)."""
import glob, json, os
VERIF = os.path.dirname(os.path.dirname(os.path.abspath(__file__)))
rows = []
for fn in sorted(glob.glob(os.path.join(VERIF, 'seeded', '*', 'meta.json'))):
    d = json.load(open(fn))
    sid = os.path.basename(os.path.dirname(fn))
    ok_demo = d.get('demo_on_clean_tree', {}).get('rc') == 0 and d.get('demo_with_patch', {}).get('rc') not in (0, None)
    suite = d.get('baseline_suite_with_patch', '')
    caught = []
    for c, v in d.get('checks', {}).items():
        if v['rc'] == 1:
            nf = any('no-failing-input-found' in l for l in v['lines'])
            caught.append(f"{c}: VIOLATION" + (" (no-failing-input-found)" if nf else " with failing input"))
        elif v['rc'] == 0:
            caught.append(f"{c}: missed")
        else:
            caught.append(f"{c}: rc={v['rc']}")
    hist = d.get('history', '')
    rows.append(f"| {sid} | {d.get('property')} | {d.get('summary','')} | {d.get('needs_to_manifest','')} | "
                f"{'yes' if ok_demo else 'NO'} / {suite.split(' in ')[0] if suite else '?'} | {'; '.join(caught) or 'not evaluated'} | {hist} |")
print('| seed | property | change | needs, to manifest | demo fails only with change / baseline suite with change | checks (quick tier, seed 0) | notes |')
print('|---|---|---|---|---|---|---|')
print('\n'.join(rows))
