"""Operation table, generators and NumPy references for C37 (secure NumPy arrays).

A case dict {'op', 'kind', 'm', 'no_prss', 'seed'} determines everything: `run_case` regenerates the
plan (shapes, values, public parameters) from the seed, runs the real code in the simulator, and
compares with (a) secure scalars, (b) NumPy, and returns the request lines for (c) the Lean driver.
"""
import functools
import itertools
import math
import random
import sys
import os

sys.path.insert(0, os.path.dirname(os.path.abspath(__file__)))
import simnet  # noqa: E402  (sets up sys.path for mpyc and numpy)
from simnet import SimNet, Scheduler, Deadlock, PartyError  # noqa: E402
import numpy as np  # noqa: E402
from mpyc import finfields, sectypes  # noqa: E402
import mpyc.runtime as rtmod  # noqa: E402

import warnings  # noqa: E402
warnings.filterwarnings("ignore", category=RuntimeWarning)
OPS = {}
DIRECTED = {}     # one fixed input per OPEN known finding (not part of the random sweep)
CALLS = {}
F = 16           # fractional bits of the fixed-point type (SecFxp(32, 16); NB SecFxp(24, 8) division returns 0 even for scalars)
ULP = 2.0 ** -F
PRIMES = {'f11': 11, 'f101': 101, 'fM': 2**31 - 1}
ALLK = ['int', 'fxp', 'f11', 'f101', 'fM']
ORD = ['int', 'fxp']           # kinds with an order (comparisons)
FLD = ['f11', 'f101', 'fM']


def public_np_methods():
    return sorted(n for n in dir(rtmod.Runtime) if n.startswith('np_'))


def _install_counters():
    if getattr(rtmod.Runtime, '_verif_counted', False):
        return
    for name in public_np_methods() + ['_np_is_zero', '_np_randoms', 'input', 'output', '_reshare']:
        f = rtmod.Runtime.__dict__.get(name)
        if f is None or not callable(f):
            continue

        def mk(name, f):
            @functools.wraps(f)
            def g(self, *a, **k):
                if self.pid == 0:
                    CALLS[name] = CALLS.get(name, 0) + 1
                return f(self, *a, **k)
            return g
        setattr(rtmod.Runtime, name, mk(name, f))
    rtmod.Runtime._verif_counted = True


def stype_of(mpc, kind):
    if kind == 'int':
        return mpc.SecInt(24)
    if kind == 'fxp':
        return mpc.SecFxp(32, F)
    if kind == 'f256':
        return mpc.SecFld(2**8)
    return mpc.SecFld(PRIMES[kind])


def modulus(kind):
    return PRIMES.get(kind)


# ---------------------------------------------------------------------------------------------
# generators
# ---------------------------------------------------------------------------------------------
ALLOW0 = [True]   # zero-size arrays: switched off per case (only under --mix32-64bit, see run_case)


def rshape(rng, maxdim=3, maxsize=24, mindim=0, allow0=True, mind=1):
    allow0 = allow0 and ALLOW0[0]
    nd = rng.randint(max(1, mindim), maxdim) if (mindim > 0 or rng.random() > 0.06) else 0
    while True:
        s = []
        for _ in range(nd):
            r = rng.random()
            if allow0 and r < 0.04:
                s.append(0)
            elif r < 0.25:
                s.append(max(1, mind))
            else:
                s.append(rng.randint(max(1, mind), 6))
        if math.prod(s) <= maxsize:
            return tuple(s)


def bpair(rng, maxsize=24, incompatible=False):
    """two shapes that broadcast (or, on request, clash)"""
    s = rshape(rng, 3, maxsize)
    out = []
    for _ in range(2):
        k = rng.randint(0, len(s))
        t = list(s[len(s) - k:])
        for i in range(len(t)):
            if rng.random() < 0.3:
                t[i] = 1
        out.append(tuple(t))
    if incompatible:
        a, b = list(out[0]), list(out[1])
        if not a:
            a = [2]
        if not b:
            b = [3]
        a[-1], b[-1] = 2, 3
        out = [tuple(a), tuple(b)]
    return out[0], out[1]


def rvals(rng, kind, shape, mode='small'):
    """plain values: object ints (int / field kinds) or float64 multiples of 2^-F (fxp)"""
    n = math.prod(shape)
    p = modulus(kind)
    if kind == 'int':
        B = {'small': 100, 'tiny': 2, 'bits': 1, 'wide': 2**15, 'pos': 100, 'nz': 50}[mode]
        if mode == 'bits':
            v = [rng.randint(0, 1) for _ in range(n)]
        elif mode == 'tiny':
            v = [rng.choice([-2, -1, 1, 1, 1, 2]) for _ in range(n)]
        elif mode == 'pos':
            v = [rng.randint(1, B) for _ in range(n)]
        elif mode == 'nz':
            v = [rng.choice([-1, 1]) * rng.randint(1, B) for _ in range(n)]
        else:
            v = [rng.choice([0, 1, -1, B, -B]) if rng.random() < 0.2 else rng.randint(-B, B) for _ in range(n)]
        return np.array(v, dtype=object).reshape(shape)
    if kind == 'fxp':
        if mode == 'bits':
            v = [float(rng.randint(0, 1)) for _ in range(n)]
        elif mode == 'tiny':
            v = [float(rng.choice([-2, -1, 1, 1, 1, 2])) if rng.random() < 0.5 else rng.choice([-1.5, 0.5, 1.25, -0.75, 1.0])
                 for _ in range(n)]
        elif mode in ('pos', 'nz'):
            v = [rng.randint(128, 1024) / 256 * (rng.choice([-1, 1]) if mode == 'nz' else 1) for _ in range(n)]
        elif mode == 'integral':
            v = [float(rng.randint(-50, 50)) for _ in range(n)]
        elif mode == 'raw':
            v = [rng.randint(-5000, 5000) / 2**F for _ in range(n)]
        else:
            integral = rng.random() < 0.25
            v = [float(rng.randint(-8, 8)) if integral or rng.random() < 0.15 else rng.randint(-2048, 2048) / 256
                 for _ in range(n)]
        return np.array(v, dtype=float).reshape(shape)
    if kind == 'f256':
        return np.array([rng.randrange(256) for _ in range(n)], dtype=object).reshape(shape)
    if mode == 'bits':
        v = [rng.randint(0, 1) for _ in range(n)]
    elif mode in ('nz', 'pos'):
        v = [rng.randrange(1, p) for _ in range(n)]
    else:
        v = [rng.choice([0, 1, p - 1]) if rng.random() < 0.2 else rng.randrange(p) for _ in range(n)]
    return np.array(v, dtype=object).reshape(shape)


def arange_vals(kind, shape, start=0):
    n = math.prod(shape)
    if kind == 'fxp':
        return (np.arange(start, start + n, dtype=float)).reshape(shape)
    p = modulus(kind)
    v = [(start + i) % p if p else start + i for i in range(n)]
    return np.array(v, dtype=object).reshape(shape)


# ---------------------------------------------------------------------------------------------
# canonical plain values, comparison
# ---------------------------------------------------------------------------------------------
def to_np(v):
    if isinstance(v, finfields.FiniteFieldArray):
        a = v.value
        if a.dtype != object or (a.size and not isinstance(a.flat[0], (int, np.integer))):
            a = np.vectorize(int, otypes='O')(a) if a.size else a.astype(object)
        return np.array(a, dtype=object)
    if isinstance(v, finfields.FiniteFieldElement):
        return np.array(int(v), dtype=object)
    if isinstance(v, np.ndarray):
        return v
    if isinstance(v, (list, tuple)):
        parts = [to_np(x) for x in v]
        if parts and all(p.shape == parts[0].shape for p in parts):
            out = np.empty((len(parts),) + parts[0].shape, dtype=object)
            for i, p in enumerate(parts):
                out[i] = p
            return out
        out = np.empty(len(parts), dtype=object)
        for i, p in enumerate(parts):
            out[i] = p
        return out
    if isinstance(v, (bool, np.bool_)):
        return np.array(int(v), dtype=object)
    return np.array(v, dtype=object) if not isinstance(v, float) else np.array(v)


def short(v):
    a = to_np(v)
    return {'shape': list(a.shape), 'values': [x if isinstance(x, (int, float)) else (float(x) if isinstance(x, np.floating) else int(x) if isinstance(x, np.integer) else repr(x)) for x in a.reshape(-1).tolist()[:40]]}


def same(kind, got, exp, tol=0.0):
    """None if equal (shape and values), else a message"""
    g, e = to_np(got), to_np(exp)
    if g.shape != e.shape:
        return f'shape {g.shape} expected {e.shape}'
    gl, el = g.reshape(-1).tolist(), e.reshape(-1).tolist()
    p = modulus(kind)
    for i, (x, y) in enumerate(zip(gl, el)):
        if isinstance(x, np.ndarray) or isinstance(y, np.ndarray):
            msg = same(kind, x, y, tol)
            if msg:
                return f'element {i}: {msg}'
            continue
        if kind == 'fxp':
            if not abs(float(x) - float(y)) <= tol + 1e-12:
                return f'value {float(x)!r} expected {float(y)!r} (tol {tol}) at flat index {i}'
        else:
            x, y = int(x), int(y)
            if p:
                x, y = x % p, y % p
            if x != y:
                return f'value {x} expected {y} at flat index {i}'
    return None


def shp(s):
    return ','.join(str(int(d)) for d in s) if len(s) else '-'


def ints(l):
    l = [int(x) for x in l]
    return ','.join(str(x) for x in l) if l else '-'


def opt(x):
    return 'none' if x is None else (ints(x) if isinstance(x, (list, tuple)) else str(int(x)))


# ---------------------------------------------------------------------------------------------
# execution of one case
# ---------------------------------------------------------------------------------------------
def op(name, kinds, weight=1):
    def deco(f):
        OPS[name] = {'plan': f, 'kinds': kinds, 'weight': weight}
        return f
    return deco


def directed(name, kind):
    def deco(f):
        DIRECTED[name] = {'plan': f, 'kinds': [kind]}
        return f
    return deco


def walk_declared(obj):
    """declared shapes of the placeholders in a result structure"""
    if isinstance(obj, sectypes.SecureArray):
        return tuple(obj.shape)
    if isinstance(obj, (list, tuple)):
        return [walk_declared(x) for x in obj]
    return None


async def reveal(mpc, obj):
    if type(obj).__name__ == '_Awaited':
        return await obj.fut
    if isinstance(obj, sectypes.SecureObject):
        return await mpc.output(obj)
    if isinstance(obj, np.ndarray) and obj.dtype == object and obj.size and isinstance(obj.flat[0], sectypes.SecureObject):
        flat = await mpc.output(list(obj.reshape(-1)))
        out = np.empty(obj.size, dtype=object)
        for i, x in enumerate(flat):
            out[i] = x
        return out.reshape(obj.shape)
    if isinstance(obj, (list, tuple)):
        if obj and all(isinstance(x, sectypes.SecureObject) and not isinstance(x, sectypes.SecureArray) for x in obj):
            return await mpc.output(list(obj))
        return [await reveal(mpc, x) for x in obj]
    return obj


def check_declared(decl, plain):
    """declared placeholder shapes must be the shapes of the opened values"""
    if decl is None:
        return None
    if isinstance(decl, tuple):
        got = to_np(plain).shape
        if tuple(got) != tuple(decl):
            return f'declared shape {tuple(decl)} but opened value has shape {tuple(got)}'
        return None
    if isinstance(decl, list) and isinstance(plain, (list, tuple)) and len(decl) == len(plain):
        for d, q in zip(decl, plain):
            msg = check_declared(d, q)
            if msg:
                return msg
    return None


def secure_scalars(S, arr):
    """np object array of fresh secure scalars with the plain values of arr"""
    out = np.empty(arr.shape, dtype=object)
    flat = out.reshape(-1)
    vals = arr.reshape(-1).tolist()
    for i, v in enumerate(vals):
        flat[i] = S(v)
    return out


def run_case(case):
    _install_counters()
    CALLS.clear()
    # option -W / MPYC_MAXWORKERS (read by finfields at call time): worker threads for array square roots
    os.environ['MPYC_MAXWORKERS'] = str(case.get('workers', 0))
    name, kind = case['op'], case['kind']
    rng = random.Random(case['seed'])
    ALLOW0[0] = True   # zero-size arrays also under --mix32-64bit (repaired by repo commit fe2a0ec)
    plan = (OPS.get(name) or DIRECTED[name])['plan'](rng, kind, case.get('force'))
    m, no_prss = case['m'], case['no_prss']
    res = {'case': case, 'status': 'ok', 'lean': [], 'key': plan.get('key'), 'nontrivial': plan.get('nontrivial', True),
           'tags': plan.get('tags', []), 'program': plan.get('desc')}
    inputs = plan['inputs']
    expect_exc = plan.get('expect_exc')
    box = {}

    async def prog(mpc):
        S = stype_of(mpc, kind)
        X = {}
        for nm, arr in inputs.items():
            a = S.array(arr.copy())  # the constructor may reduce the caller's array in place
            X[nm] = mpc.input(a, senders=0)
        try:
            out = plan['call'](mpc, S, X)
        except Exception as exc:  # synchronous exception of the operation
            if mpc.pid == 0:
                box['exc'] = type(exc).__name__ + ': ' + str(exc)[:200]
                box['exc_type'] = type(exc).__name__
            return None
        decl = walk_declared(out)
        plain = await reveal(mpc, out)
        sc = None
        if plan.get('scalar') is not None:
            L = {}
            for nm, arr in inputs.items():
                ss = secure_scalars(S, arr)
                if ss.size:
                    flat = mpc.input(list(ss.reshape(-1)), senders=0)
                    for i, x in enumerate(flat):
                        ss.reshape(-1)[i] = x
                L[nm] = ss
            sc = await reveal(mpc, plan['scalar'](mpc, S, L))
        after = None
        if not plan.get('mutates'):
            # like NumPy, an operation must leave its operands untouched (in-place protocols work on copies)
            after = {}
            for nm in X:
                try:
                    after[nm] = await reveal(mpc, X[nm])
                except Exception:  # noqa: BLE001
                    after[nm] = None
        return decl, plain, sc, after

    sched = None
    if m > 1 and rng.random() < 0.25:
        sched = Scheduler(case['seed'], rng.choice(['random', 'lazynet', 'eagernet']))
    try:
        outs = SimNet(m, None, no_prss=no_prss, seed=case['seed'] & 0xffff, sched=sched, max_steps=3_000_000,
                      mix32_64bit=bool(case.get('mix32_64bit')), sec_param=case.get('sec_param')).run(prog)
    except Deadlock as exc:
        return fail(res, 'deadlock', f'run does not terminate: {str(exc)[:300]}')
    except PartyError as exc:
        r = fail(res, 'crash', f'a party raised: {str(exc)[:600]}')
        if plan.get('finding_key_crash'):
            r['finding_key'] = plan['finding_key_crash']
        return r
    finally:
        res['calls'] = dict(CALLS)
    if expect_exc is not None:
        if box.get('exc_type') != expect_exc:
            return fail(res, 'error-behaviour', f"expected {expect_exc} (NumPy raises it), observed {box.get('exc', 'no exception')}",
                        expected=expect_exc, observed=box.get('exc'))
        for req, impl in plan.get('lean_exc', []):
            res['lean'].append((req, impl))
        return res
    if 'exc' in box:
        r = fail(res, 'exception', f"operation raised {box['exc']}", observed=box['exc'])
        if plan.get('finding_key_exc'):
            r['finding_key'] = plan['finding_key_exc']
        return r
    decl, plain, sc, after = outs[0]
    # all parties see the same opened values
    for i in range(1, m):
        msg = same(kind, outs[i][1], plain, 0.0)
        if msg:
            return fail(res, 'party-disagreement', f'party {i} opened a different value than party 0: {msg}')
    P = {k: v for k, v in inputs.items()}
    msg = check_declared(decl, plain)
    if msg:
        r = fail(res, 'declared-shape', msg, expected=None, observed=short(plain))
        if plan.get('finding_key'):
            r['finding_key'] = plan['finding_key']
        return r
    exp = plan['ref'](P)
    tol = plan.get('tol', 0.0) if kind == 'fxp' else 0.0
    chk = plan.get('check')
    msg = chk(plain, exp) if chk else same(kind, plain, exp, tol)
    if msg:
        r = fail(res, 'numpy', f'opened result differs from NumPy: {msg}', expected=short(exp), observed=short(plain))
        if plan.get('finding_key_numpy'):
            r['finding_key'] = plan['finding_key_numpy']
        return r
    if sc is not None:
        tol2 = plan.get('tol_scalar', 2 * tol) if kind == 'fxp' else 0.0
        chk2 = plan.get('check_scalar')
        msg = chk2(plain, sc) if chk2 else same(kind, plain, sc, tol2)
        if msg:
            return fail(res, 'scalar', f'array result differs from elementwise secure scalars: {msg}',
                        expected=short(sc), observed=short(plain))
    if after:
        for nm, arr in list(inputs.items()) + list(plan.get('derived', {}).items()):
            if after.get(nm) is None:
                continue
            msg = same(kind, after[nm], fmod(kind, arr) if kind not in ('fxp',) else arr, 0.0)
            if msg:
                return fail(res, 'operand-modified', f'operand {nm} opens to a different array after the operation than before '
                            f'(NumPy leaves operands untouched): {msg}', expected=short(arr), observed=short(after[nm]))
    if plan.get('lean'):
        for req, impl in plan['lean'](P, decl, plain):
            res['lean'].append((req, impl))
    res['sample'] = {'program': plan.get('desc'), 'inputs': {k: short(v) for k, v in inputs.items()}, 'result': short(plain)}
    return res


def fail(res, failure, detail, expected=None, observed=None):
    res['status'] = 'violation'
    res['failure'] = failure
    res['detail'] = f"{res.get('program')}: {detail}"
    res['expected'] = expected
    res['observed'] = observed
    return res


def flat_ints(a):
    return [int(x) for x in to_np(a).reshape(-1).tolist()]


from arrays_optable import *  # noqa: E402,F401,F403  (registers the operations)
from arrays_optable import numpy_model_lines, VARIANTS  # noqa: E402,F401
