"""Source-translator tie shared by C07 and C19: current mpyc/runtime.py -> lean/MpycV/Generated/CommSrc.lean (py2lean_comm)."""
import os

import common
import repo_path
import py2lean_comm

GEN_FILE = os.path.join(common.LEAN_DIR, 'MpycV', 'Generated', 'CommSrc.lean')
MIRROR_FILE = os.path.join(common.LEAN_DIR, 'MpycV', 'Lemmas', 'CommSrcMirror.lean')
TIE_MODULE = 'MpycV.PropsGen.CommSrcTie'
TIE_NAMESPACE = 'MpycV.CommSrcTie'


def _translate_current():
    src = os.path.join(repo_path.REPO, 'mpyc', 'runtime.py')
    try:
        text = open(src).read()
    except OSError as exc:
        return py2lean_comm.translate_source('')[0], {'*': f'cannot read {src}: {exc}'}
    return py2lean_comm.translate_source(text)


def _blocks(text):
    """{definition name: body text}; source line numbers are ignored"""
    out, cur = {}, None
    for ln in text.replace('MpycV.CommMirror', 'MpycV.CommSrc').split('\n'):
        if ln.startswith('-- ≙ runtime.py:'):
            continue
        if ln.startswith('def ') or ln.startswith('/-- NOT TRANSLATED'):
            cur = ln.split()[1] if ln.startswith('def ') else None
            if cur is None:
                continue
            out[cur] = []
        if ln.startswith('end MpycV.'):
            cur = None
        if cur is not None:
            out[cur].append(ln)
    return {k: '\n'.join(v).strip() for k, v in out.items()}


def changed_definitions(text=None):
    """routing definitions whose translation differs from the mirror the bridge lemmas are proved for"""
    if text is None:
        text = _translate_current()[0]
    try:
        mirror = _blocks(open(MIRROR_FILE).read())
    except OSError:
        return list(py2lean_comm.ORDER)
    cur = _blocks(text)
    return sorted(k for k in set(cur) | set(mirror) if cur.get(k) != mirror.get(k))


def generate(ctx):
    text, problems = _translate_current()
    os.makedirs(os.path.dirname(GEN_FILE), exist_ok=True)
    old = open(GEN_FILE).read() if os.path.exists(GEN_FILE) else None
    if old != text:
        tmp = GEN_FILE + f'.tmp{os.getpid()}'
        with open(tmp, 'w') as f:
            f.write(text)
        os.replace(tmp, GEN_FILE)
    for fn, msg in problems.items():
        ctx.note(f'py2lean_comm: {fn} not translated: {msg}')
    changed = changed_definitions(text)
    if changed:
        ctx.note('py2lean_comm: translated routing differs from the pinned mirror for: ' + ', '.join(changed))
    ctx.count('py2lean_comm/definitions translated', len(py2lean_comm.ORDER) - len([k for k in problems if k != '*']))
