"""In-process m-party simulator for MPyC -- needs no hook in /repo.

m `Runtime` objects live in one Python process and one event loop.  The module globals
`asyncoro.runtime`, `sectypes.runtime`, ... are replaced by a proxy that forwards attribute
access to `RTS[CUR.get()]`, CUR being a ContextVar.  asyncio propagates contexts through Task,
call_soon and add_done_callback, so every callback runs as the party that registered it.

Connections are virtual transports (per-direction byte queues).  A *scheduler* decides, step by
step, between "run the next ready handle of party i" (FIFO within a party, as a real per-party
loop guarantees), "deliver the next k bytes on channel i->j" and "deliver EOF".  Every choice is
recorded, so a run replays exactly from (seed, choice list).

Enforced asyncio rules (the modelled part, see DESIGN.md section 3): a task step is atomic;
ready handles of one party run FIFO; callbacks of a completed future run in registration order.
"""
import sys
import os
sys.path.insert(0, os.path.dirname(os.path.abspath(__file__)))
import repo_path  # noqa: F401  (puts $VERIF_REPO or /repo first on sys.path)

_argv = sys.argv
sys.argv = [sys.argv[0], '--no-log']
_deps = os.path.join(os.path.dirname(os.path.dirname(os.path.abspath(__file__))), '.deps')
if os.path.isdir(_deps) and _deps not in sys.path and os.environ.get('SIMNET_NO_DEPS') != '1':
    sys.path.append(_deps)
import asyncio
import contextvars
import gc
import heapq
import random
import struct
import logging
import mpyc  # noqa
import mpyc.runtime as rtmod
from mpyc import asyncoro, sectypes, mpctools, seclists, secpols, secgroups, statistics, thresha
import mpyc.random as mpyc_random
sys.argv = _argv
logging.disable(logging.CRITICAL)

CUR = contextvars.ContextVar('party', default=-1)
RTS = {}
_LAST_CFG = None


class _Proxy:
    """Module-level `runtime` stand-in dispatching on the current party."""

    def __getattr__(self, name):
        return getattr(RTS[CUR.get()], name)

    def __setattr__(self, name, value):
        setattr(RTS[CUR.get()], name, value)


PROXY = _Proxy()
_MODS = [asyncoro, sectypes, mpctools, seclists, secpols, secgroups, statistics, mpyc_random]


def _install_proxy():
    for mod in _MODS:
        mod.runtime = PROXY
    rtmod.mpc = PROXY


class _Secrets:
    """Replacement for module `secrets` inside mpyc: per-party seeded streams."""

    def __init__(self):
        self.rngs = {}
        self.log = None  # optional list of (pid, kind, arg, value)
        self.override = None  # optional callable (pid, kind, arg) -> value or None

    def reseed(self, seed, m):
        self.rngs = {i: random.Random((seed << 8) + i + 1) for i in range(-1, m)}

    def _rng(self):
        return self.rngs[CUR.get()]

    def _out(self, kind, arg, val):
        if self.override is not None:
            v = self.override(CUR.get(), kind, arg)
            if v is not None:
                val = v
        if self.log is not None:
            self.log.append((CUR.get(), kind, arg, val))
        return val

    def randbelow(self, n):
        return self._out('randbelow', n, self._rng().randrange(n))

    def randbits(self, k):
        return self._out('randbits', k, self._rng().getrandbits(k) if k else 0)

    def token_bytes(self, n=32):
        return self._out('token_bytes', n, bytes(self._rng().getrandbits(8) for _ in range(n)))

    def choice(self, seq):
        return seq[self.randbelow(len(seq))]


SECRETS = _Secrets()
rtmod.secrets = SECRETS
thresha.secrets = SECRETS
for _mod in (mpyc_random, sectypes, secgroups, seclists, statistics):
    if hasattr(_mod, 'secrets'):
        _mod.secrets = SECRETS


class Deadlock(Exception):
    pass


class PartyError(Exception):
    pass


class Scheduler:
    """Source of scheduling choices.  choose(options) -> index into options.

    options are tuples ('run', i) | ('deliver', i, j, nbytes) | ('eof', i, j) | ('timer',).
    chunk(n) -> number of bytes (1..n) to deliver.
    """

    def __init__(self, seed=0, mode='random', replay=None, chunk_mode='mixed'):
        self.rng = random.Random(seed)
        self.mode = mode
        self.replay = list(replay) if replay is not None else None
        self.pos = 0
        self.trace = []
        self.widths = []
        self.chunk_mode = chunk_mode
        self.rr = 0
        self.bias = None

    def _next(self, n, default):
        if self.replay is not None and self.pos < len(self.replay):
            c = self.replay[self.pos] % n
        else:
            c = default()
        self.pos += 1
        self.trace.append(c)
        self.widths.append(n)
        return c

    def choose(self, options):
        n = len(options)
        if n == 1:
            return 0
        return self._next(n, lambda: self._default_choice(options))

    def _default_choice(self, options):
        n = len(options)
        if self.mode == 'fifo':  # reference schedule: round-robin over parties, deliveries first
            for k, o in enumerate(options):
                if o[0] != 'run':
                    return k
            self.rr += 1
            return self.rr % n
        if self.mode == 'starve':  # adversarial: starve one party / prefer runs over deliveries
            if self.bias is None:
                self.bias = (self.rng.randrange(8), self.rng.random())
            victim, pr = self.bias
            cand = [k for k, o in enumerate(options) if not (
                (o[0] == 'run' and o[1] == victim) or (o[0] in ('deliver', 'eof') and o[2] == victim))]
            if cand and self.rng.random() < 0.93:
                return self.rng.choice(cand)
            if self.rng.random() < 0.02:
                self.bias = None
            return self.rng.randrange(n)
        if self.mode == 'lazynet':  # deliver only when no party can run
            cand = [k for k, o in enumerate(options) if o[0] == 'run']
            if cand and self.rng.random() < 0.97:
                return self.rng.choice(cand)
            return self.rng.randrange(n)
        if self.mode == 'eagernet':
            cand = [k for k, o in enumerate(options) if o[0] != 'run']
            if cand and self.rng.random() < 0.9:
                return self.rng.choice(cand)
            return self.rng.randrange(n)
        return self.rng.randrange(n)

    def chunk(self, n):
        if n == 1:
            return 1
        if self.chunk_mode == 'whole':
            return n
        return 1 + self._next(n, lambda: min(n, self._default_chunk(n)) - 1)

    def _default_chunk(self, n):
        if self.chunk_mode == 'bytes':
            return 1
        r = self.rng.random()
        if r < 0.5:
            return n
        if r < 0.7:
            return self.rng.choice([1, 2, 7, 8, 11, 12, 13, 14])
        if r < 0.85:
            return max(1, n - self.rng.choice([0, 1, 2, 11, 12, 13]))
        return self.rng.randrange(1, n + 1)


class _Transport:
    """Virtual transport: one end of a bidirectional connection."""

    def __init__(self, net, a, b):
        self.net = net
        self.a = a  # owner pid
        self.b = b  # peer pid
        self.closed = False

    def write(self, data):
        if self.closed:
            return
        self.net._write(self.a, self.b, bytes(data))

    def writelines(self, lines):
        self.write(b''.join(bytes(x) for x in lines))

    def close(self):
        if self.closed:
            return
        self.closed = True
        self.net._close(self.a, self.b)

    def is_closing(self):
        return self.closed

    def abort(self):
        self.close()

    def get_extra_info(self, name, default=None):
        return default


class SimLoop(asyncio.SelectorEventLoop):
    """Event loop whose _run_once executes exactly one scheduler-chosen action."""

    def __init__(self, net):
        super().__init__()
        self.net = net
        self._vtime = 0.0

    def time(self):
        return self._vtime

    def _run_once(self):
        net = self.net
        # system handles (no party context) run immediately, in order
        ready = self._ready
        for _ in range(len(ready)):
            h = ready.popleft()
            if h._cancelled:
                continue
            p = h._context.get(CUR, -1) if h._context is not None else -1
            if p == -1:
                h._run()
            else:
                net.queues[p].append(h)
        if self._stopping:
            return
        options = [('run', i) for i in range(net.m) if net.queues[i] and i not in net.stopped]
        for (i, j), ch in net.chan.items():
            if j in net.stopped:
                continue
            if ch['buf']:
                options.append(('deliver', i, j, len(ch['buf'])))
            elif ch['eof'] and not ch['eof_done']:
                options.append(('eof', i, j))
        if not options:
            # advance virtual time to the earliest timer, if any
            while self._scheduled and self._scheduled[0]._cancelled:
                heapq.heappop(self._scheduled)
            if self._scheduled:
                th = heapq.heappop(self._scheduled)
                th._scheduled = False
                self._vtime = max(self._vtime, th._when)
                self._ready.append(th)
                return
            net.quiescent = True
            self.stop()
            return
        net.steps += 1
        if net.steps > net.max_steps:
            net.budget_exceeded = True
            self.stop()
            return
        opt = options[net.sched.choose(options)]
        if net.on_step is not None:
            net.on_step(opt)
        if opt[0] == 'run':
            h = net.queues[opt[1]].popleft()
            if not h._cancelled:
                h._run()
        elif opt[0] == 'deliver':
            _, i, j, n = opt
            k = net.sched.chunk(n)
            ch = net.chan[(i, j)]
            data = bytes(ch['buf'][:k])
            del ch['buf'][:k]
            net.delivered[(i, j)] += k
            net._in_ctx(j, net.protos[(j, i)].data_received, data)
        else:  # eof
            _, i, j = opt
            ch = net.chan[(i, j)]
            ch['eof_done'] = True
            tr = net.transports[(j, i)]
            if not tr.closed:
                tr.closed = True
                net.chan[(j, i)]['buf'].clear()  # peer closed: nothing more is read from us
                net._in_ctx(j, net.protos[(j, i)].connection_lost, None)
        # timers that are due at current virtual time
        while self._scheduled and (self._scheduled[0]._cancelled or self._scheduled[0]._when <= self._vtime):
            th = heapq.heappop(self._scheduled)
            th._scheduled = False
            if not th._cancelled:
                self._ready.append(th)


import collections  # noqa: E402


class SimNet:
    """m MPyC parties in one process."""

    def __init__(self, m, t=None, no_prss=False, seed=0, sched=None, max_steps=2_000_000,
                 sec_param=None, mix32_64bit=False, no_barrier=False, bit_length=None, t_initial=None):
        self.m = m
        self.t = (m - 1) // 2 if t is None else t
        assert 2 * self.t < m
        self.no_prss = no_prss
        self.seed = seed
        self.sched = sched if sched is not None else Scheduler(seed, 'fifo', chunk_mode='whole')
        self.max_steps = max_steps
        self.steps = 0
        self.quiescent = False
        self.budget_exceeded = False
        self.on_step = None
        self.errors = []
        self.stopped = set()
        self.queues = [collections.deque() for _ in range(m)]
        self.chan = {}
        self.protos = {}
        self.transports = {}
        self.delivered = collections.Counter()
        self.sent_bytes = collections.Counter()
        self.wire = collections.defaultdict(bytearray)  # full byte history per directed channel
        self.on_write = None
        self.crash = None          # (victim pid, number of bytes it manages to write in total, deliver EOF to peers?)
        self.crash_sent = 0
        self.outlog = [[] for _ in range(m)]   # programs may append completed outputs here (crash checks)
        SECRETS.reseed(seed, m)
        # secure types are cached per process but depend on the configuration they were created under
        # (field lifting depends on m and t, field sizes on sec_param): start every configuration afresh
        cfgkey = (m, self.t, sec_param, bit_length)
        global _LAST_CFG
        if _LAST_CFG != cfgkey:
            _LAST_CFG = cfgkey
            for fn in (sectypes._SecFld, sectypes._SecInt, sectypes._SecFxp, sectypes._SecFlt, secgroups.SecGrp):
                fn.cache_clear()
        _install_proxy()
        RTS.clear()
        self.loop = SimLoop(self)
        self.loop.set_debug(False)
        asyncio.set_event_loop(self.loop)
        self.ctx = []
        self.rts = []
        for i in range(m):
            ctx = contextvars.copy_context()
            ctx.run(CUR.set, i)
            self.ctx.append(ctx)
            opts = mpyc._get_arg_parser().parse_args([])
            opts.threshold = self.t if t_initial is None else t_initial
            opts.no_prss = no_prss
            opts.no_async = False
            opts.no_barrier = no_barrier
            opts.mix32_64bit = mix32_64bit
            opts.ssl = False
            opts.no_log = True
            if sec_param is not None:
                opts.sec_param = sec_param
            if bit_length is not None:
                opts.bit_length = bit_length
            parties = [rtmod.Party(j, 'sim', 0) for j in range(m)]
            rt = ctx.run(rtmod.Runtime, i, parties, opts)
            RTS[i] = rt
            self.rts.append(rt)
        self.token_start = 0
        if t_initial is not None:
            self.token_start = len(SECRETS.log) if SECRETS.log is not None else 0
            # the program assigns mpc.threshold after the runtime was created and before mpc.start()
            # (as demos/parallelsort.py does)
            for i in range(m):
                self.ctx[i].run(setattr, self.rts[i], 'threshold', self.t)
        self.loop.set_exception_handler(self._exc_handler)

    def new_session(self):
        """Prepare a second run with the SAME Runtime objects (mpc.shutdown() ... mpc.start() in one process)."""
        self.steps = 0
        self.quiescent = False
        self.budget_exceeded = False
        self.errors = []
        self.stopped = set()
        self.queues = [collections.deque() for _ in range(self.m)]
        self.chan, self.protos, self.transports = {}, {}, {}
        self.wire = collections.defaultdict(bytearray)
        _install_proxy()
        for i in range(self.m):
            RTS[i] = self.rts[i]
        self.loop = SimLoop(self)
        self.loop.set_debug(False)
        asyncio.set_event_loop(self.loop)
        for rt in self.rts:
            rt._loop = self.loop
        self.loop.set_exception_handler(self._exc_handler)

    def set_threshold(self, t):
        """mpc.threshold = t at every party (between two sessions)"""
        self.t = t
        for i in range(self.m):
            self.ctx[i].run(setattr, self.rts[i], 'threshold', t)

    # -- plumbing -------------------------------------------------------------------------
    def _exc_handler(self, loop, context):
        exc = context.get('exception')
        msg = context.get('message', '')
        if 'was never retrieved' in msg and exc is None:
            return
        if exc is not None and isinstance(exc, getattr(self, 'expected_exc', ())):
            self.swallowed = getattr(self, 'swallowed', 0) + 1   # a fault the program injects on purpose
            return
        self.errors.append((CUR.get(), msg, exc))

    def _in_ctx(self, i, fn, *args):
        try:
            return self.ctx[i].run(fn, *args)
        except Exception as exc:  # exception inside a protocol callback
            self.errors.append((i, 'callback', exc))

    def _write(self, a, b, data):
        if self.crash is not None and a == self.crash[0]:
            if a in self.stopped:
                return
            left = self.crash[1] - self.crash_sent
            if len(data) >= left:      # the victim stops in the middle of (or right after) this write
                data = data[:left]
                self.crash_sent += len(data)
                self._write_raw(a, b, data)
                self.stop_party(a, eof=self.crash[2])
                return
            self.crash_sent += len(data)
        self._write_raw(a, b, data)

    def _write_raw(self, a, b, data):
        self.sent_bytes[(a, b)] += len(data)
        self.wire[(a, b)].extend(data)
        if self.on_write is not None:
            self.on_write(a, b, data)
        ch = self.chan[(a, b)]
        if ch['eof'] or self.transports[(b, a)].closed:
            return
        ch['buf'].extend(data)

    def _close(self, a, b):
        self.chan[(a, b)]['eof'] = True
        self.chan[(b, a)]['buf'].clear()  # a no longer reads
        proto = self.protos[(a, b)]
        self.loop.call_soon(proto.connection_lost, None, context=self.ctx[a])

    def connect(self):
        """Set up all pairwise connections (handshakes are delivered by the scheduler)."""
        m = self.m
        self.t_connect = self.rts[0].threshold      # the handshakes carry the PRSS keys of this threshold
        if m == 1:
            return
        for i in range(m):
            rt = self.rts[i]
            for p in rt.parties:
                p.protocol = asyncio.Future(loop=self.loop) if p.pid == i else None
        for i in range(m):
            for j in range(i + 1, m):
                self.chan[(i, j)] = {'buf': bytearray(), 'eof': False, 'eof_done': False}
                self.chan[(j, i)] = {'buf': bytearray(), 'eof': False, 'eof_done': False}
                client = asyncoro.MessageExchanger(self.rts[i], j)
                server = asyncoro.MessageExchanger(self.rts[j])
                self.protos[(i, j)] = client
                self.protos[(j, i)] = server
                self.transports[(i, j)] = _Transport(self, i, j)
                self.transports[(j, i)] = _Transport(self, j, i)
        for i in range(m):
            for j in range(i + 1, m):
                self._in_ctx(j, self.protos[(j, i)].connection_made, self.transports[(j, i)])
                self._in_ctx(i, self.protos[(i, j)].connection_made, self.transports[(i, j)])

    async def _main(self, i, program, shutdown):
        rt = self.rts[i]
        if self.m > 1:
            await rt.parties[i].protocol
        rt.start_time = 0.0
        res = await program(rt)
        if shutdown:
            await rt.shutdown()
        return res

    def run(self, program, shutdown=True, programs=None):
        """Run `program(mpc)` (async) at every party; return list of per-party results.

        Raises Deadlock (with .info) if the run cannot complete, PartyError if a party raised.
        """
        if getattr(program, 'expected_exc', None):
            self.expected_exc = program.expected_exc      # faults the program injects on purpose
        self.connect()
        self.tasks = []
        for i in range(self.m):
            prog = programs[i] if programs is not None else program
            tk = self.loop.create_task(self._main(i, prog, shutdown), context=self.ctx[i])
            tk._verif_main = i
            self.tasks.append(tk)
        allf = asyncio.gather(*self.tasks, return_exceptions=True)
        try:
            self.loop.run_until_complete(allf)
        except RuntimeError:
            pass  # loop stopped before completion: deadlock / budget / stop() from _reconcile
        done = [tk.done() for tk in self.tasks]
        live = [i for i in range(self.m) if i not in self.stopped]
        results = []
        for i, tk in enumerate(self.tasks):
            if tk.done() and not tk.cancelled():
                if tk.exception() is not None:
                    self.errors.append((i, 'main', tk.exception()))
                    results.append(None)
                else:
                    results.append(tk.result())
            else:
                results.append(None)
        self.results = results
        self.done = done
        if self.errors:
            err = PartyError(f'party errors: {[(i, m_, repr(e)) for i, m_, e in self.errors[:4]]}')
            err.info = self.errors
            self._cleanup()
            raise err
        if not all(done[i] for i in live):
            info = self.blocked_info()
            kind = 'budget' if self.budget_exceeded else 'deadlock'
            self._cleanup()
            err = Deadlock(f'{kind}: parties not done {[i for i in live if not done[i]]}; {info}')
            err.info = info
            err.kind = kind
            raise err
        self._cleanup()
        return results

    def blocked_info(self):
        info = {}
        for (a, b), proto in self.protos.items():
            waiting = [pc for pc, v in proto.buffers.items() if isinstance(v, asyncio.Future)]
            stored = [pc for pc, v in proto.buffers.items() if not isinstance(v, asyncio.Future)]
            if waiting or stored:
                info[f'{a}<-{b}'] = {'waiting': waiting[:6], 'unclaimed': stored[:6]}
        return info

    def stop_party(self, i, eof=True):
        """Crash party i: it never runs again and never reads; with eof, peers see the connection end
        after the bytes already written; without, the connection just goes silent."""
        self.stopped.add(i)
        self.queues[i].clear()
        for j in range(self.m):
            if j != i and (i, j) in self.chan:
                self.transports[(i, j)].closed = True
                if eof:
                    self.chan[(i, j)]['eof'] = True
                self.chan[(j, i)]['buf'].clear()

    def _cleanup(self):
        for tk in getattr(self, 'tasks', []):
            if not tk.done():
                tk.cancel()
        # drop pending handles without running them
        self.loop._ready.clear()
        for q in self.queues:
            q.clear()
        try:
            for tk in asyncio.all_tasks(self.loop):
                tk._log_destroy_pending = False
        except Exception:
            pass
        self.loop.set_exception_handler(lambda loop, ctx: None)
        try:
            self.loop.close()
        except Exception:
            pass
        asyncio.set_event_loop(None)
        # cancelled coroutines' finally blocks must not run later against the next simulation's runtimes
        self.tasks = []
        gc.collect()


def parse_frames(stream, handshake_len=0):
    """Independent frame parser for raw channel bytes: returns (handshake, [(pc, payload)], rest)."""
    hs = bytes(stream[:handshake_len])
    pos = handshake_len
    frames = []
    while len(stream) - pos >= 12:
        pc, n = struct.unpack_from('<qI', stream, pos)
        if len(stream) - pos < 12 + n:
            break
        frames.append((pc, bytes(stream[pos + 12: pos + 12 + n])))
        pos += 12 + n
    return hs, frames, bytes(stream[pos:])


def run_mpc(program, m=3, t=None, no_prss=False, seed=0, sched=None, **kw):
    """Convenience wrapper: build a SimNet, run program at all parties, return results."""
    net = SimNet(m, t, no_prss=no_prss, seed=seed, sched=sched, **kw)
    res = net.run(program)
    return res, net
