import sys; sys.path.insert(0,'/verif/harness')
import simnet
from simnet import SimNet, Scheduler
from mpyc import runtime as rtmod
LOG={}
o_out=rtmod.Runtime.output
def output(rt,x,receivers=None,threshold=None,raw=False):
    fr=sys._getframe(1)
    if fr.f_code.co_name=='_is_zero':
        L=fr.f_locals
        LOG[rt.pid]=dict(a=int(L['a']), r=[int(e.value) for e in L['r']], z=[int(e.value) for e in L['z']], u2=[int(e.value) for e in L['u2']], c=[int(e.value) for e in L['c']], p=int(L['Zp'].modulus))
    return o_out(rt,x,receivers,threshold,raw)
rtmod.Runtime.output=output
def run(secret, seed):
    async def prog(mpc):
        T=mpc.SecInt(32)
        a=mpc.input(T(secret),senders=0)
        return int(await mpc.output(mpc.is_zero(a)))
    net=SimNet(3,1,seed=seed,sec_param=8)
    res=net.run(prog)
    return res
def survivors(view):
    p=view[2]['p']; k=len(view[2]['c'])
    inv=lambda v: pow(v%p,p-2,p)
    me=view[2]; x=3
    out=[]
    for s in CANDS:
        ok_all=True
        for i in range(k):
            sh=[view[j]['c'][i] for j in range(3)]
            # interpolate c0, c2 from points 1,2,3
            xs=[1,2,3]; c0=c2=0
            for j in range(3):
                kk,l=[u for u in range(3) if u!=j]
                d=inv((xs[j]-xs[kk])*(xs[j]-xs[l])); w_=sh[j]*d%p
                c2=(c2+w_)%p; c0=(c0+w_*xs[kk]*xs[l])%p
            a2=me['a']; r2=me['r'][i]; W3=(1-2*me['z'][i])%p; U3=me['u2'][i]
            ok=False
            for w in (1,p-1):
                # s*rho + w*u = c0 ; (a2-s) rho + (W3-w) u = (a2-s) r2 + (W3-w) U3 - 9 c2
                A11,A12,B1=s%p,w,c0
                A21,A22=(a2-s)%p,(W3-w)%p
                B2=(A21*r2+A22*U3-9*c2)%p
                det=(A11*A22-A12*A21)%p
                if det==0: ok=True; break
                u=((A11*B2-A21*B1)*inv(det))%p
                if u!=0 and pow(u,(p-1)//2,p)==1: ok=True; break
            if not ok: ok_all=False; break
        if ok_all: out.append(s)
    return out
import random
rnd=random.Random(1)
for secret in (5,77):
    CANDS=[secret]+[rnd.randrange(-2**31,2**31) for _ in range(1000)]
    LOG.clear()
    res=run(secret,42+secret)
    sv=survivors(dict(LOG))
    print('secret',secret,'result',res,'k',len(LOG[2]['c']),'survivors',len(sv),'of 1001 candidates (true + 1000 random); true in set:',secret in sv, sv[:12])
