#!/bin/sh
# Offline setup: python deps into .deps (numpy for array properties, sympy as independent oracle), Lean build.
set -e
cd "$(dirname "$0")"
if [ ! -d .deps/numpy ]; then
  /venv/bin/pip install -q --no-index --find-links /opt/veriftools/wheels --target .deps numpy sympy mpmath jsonschema >/dev/null 2>&1 || \
  /venv/bin/pip install --no-index --find-links /opt/veriftools/wheels --target .deps numpy sympy mpmath jsonschema
fi
/venv/bin/python harness/gen_root.py
cd lean
lake build MpycV
