#!/bin/sh
# Offline setup: python deps into .deps (numpy for array properties, sympy as independent oracle), Lean build.
cd "$(dirname "$0")"
if [ ! -d .deps/numpy ]; then
  /venv/bin/pip install -q --no-index --find-links /opt/veriftools/wheels --target .deps numpy sympy mpmath jsonschema >/dev/null 2>&1 || \
  /venv/bin/pip install --no-index --find-links /opt/veriftools/wheels --target .deps numpy sympy mpmath jsonschema || exit 1
fi
/venv/bin/python harness/gen_root.py
# Lean modules of the claimed checks (each check rebuilds its own modules anyway; this warms the build cache)
TARGETS=$(/venv/bin/python harness/lean_targets.py)
cd lean
if ! lake build $TARGETS; then
  echo "setup: joint build failed, building targets one by one" >&2
  for t in $TARGETS; do lake build "$t" || echo "setup: target $t does not build" >&2; done
fi
exit 0
